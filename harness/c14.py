"""C14 — Reck mapping reproduces any unitary; noise enters only through the error model.

Correspondence = result checking.  The implementation's answers (phase_map,
end_phases of reck_decomposition) are handed to the Coq model as the answers of
its nulling oracle; the model re-runs the double loop in exact rational
arithmetic (cos/sin/sqrt evaluated by Python floats and passed as rationals in
finite tables), rebuilds the product, builds the mapped circuit with its own
Reck.map and compiles it.  Compared: the order and keys of phase_map, the branch
taken at each step, the nulled matrix (diagonal, = exp(i end_phases)), the
rebuilt product vs the original U, the emitted component list (kind, modes,
parameters) vs the circuit spec of the mapped circuit, the compiled matrix vs
mapped.U, heralds, every value drawn from the error-model distributions (numpy
streams replicated from the seed), and the RNG seeds derived by
ErrorModel._set_random_seed.
"""
from __future__ import annotations

import copy
import json
import math
import signal
import sys
from fractions import Fraction

import numpy as np

import core
from core import cb, clist, cn, cz

import lightworks as lw
from lightworks.interferometers import ErrorModel, Reck
from lightworks.interferometers.decomposition import reck_decomposition
from lightworks.interferometers.dists import Constant, Gaussian, TopHat

PI = float(np.pi)
TWO_PI = float(2 * np.pi)
TOL = 1e-9
FUEL = 200          # raw draws one Gaussian.value() may consume in the model
IMPL_TIMEOUT = 30   # seconds one case may take in the implementation (a resampling loop that never ends)


class ImplTimeout(BaseException):
    """raised by the alarm; BaseException so that no `except Exception` of the harness swallows it."""


def _on_alarm(signum, frame):
    raise ImplTimeout()


# ----------------------------------------------------------------------------
# numbers -> Coq
# ----------------------------------------------------------------------------
def fr(x):
    return x if isinstance(x, Fraction) else Fraction(x)


def q(x):
    """float / int / dyadic Fraction -> bigQ term  qd m k  (= m / 2^k)."""
    f = fr(x)
    d = f.denominator
    assert d & (d - 1) == 0, f
    return f"(qd {cz(f.numerator)} {d.bit_length() - 1})"


def qc(z):
    z = complex(z)
    return f"({q(z.real)}, {q(z.imag)})"


def cmat(U):
    return clist(clist(qc(z) for z in row) for row in U)


def tomat(U):
    return np.array([[complex(a, b) for a, b in row] for row in U], dtype=complex)


def frommat(U):
    return [[[float(z.real), float(z.imag)] for z in row] for row in np.asarray(U)]


def circ_dist(a, b):
    d = abs(a - b) % TWO_PI
    return min(d, TWO_PI - d)


# ----------------------------------------------------------------------------
# distributions
# ----------------------------------------------------------------------------
def pyv(x):
    """JSON value -> the Python object handed to lightworks."""
    if isinstance(x, dict):
        return {"str": "a", "bool": True, "list": [1.0]}[x["bad"]]
    return x


def mk_dist(d):
    t = d["t"]
    if t == "const":
        return Constant(pyv(d["v"]))
    if t == "tophat":
        return TopHat(pyv(d["lo"]), pyv(d["hi"]))
    return Gaussian(pyv(d["c"]), pyv(d["d"]), pyv(d["lo"]), pyv(d["hi"]))


def coq_pv(x):
    if isinstance(x, dict):
        return "PBad"
    if x is None:
        return "PNone"
    return f"(PNum {q(x)})"


def coq_dist(d):
    t = d["t"]
    if t == "const":
        return f"(SConst {coq_pv(d['v'])})"
    if t == "tophat":
        return f"(STopHat {coq_pv(d['lo'])} {coq_pv(d['hi'])})"
    return f"(SGauss {coq_pv(d['c'])} {coq_pv(d['d'])} {coq_pv(d['lo'])} {coq_pv(d['hi'])})"


def dist_ok(d):
    """all parameters are numbers (no constructor TypeError)."""
    def num(x, none_ok=False):
        return (x is None and none_ok) or (isinstance(x, (int, float)) and not isinstance(x, bool))
    t = d["t"]
    if t == "const":
        return num(d["v"])
    if t == "tophat":
        return num(d["lo"]) and num(d["hi"])
    return num(d["c"]) and num(d["d"]) and num(d["lo"], True) and num(d["hi"], True)


def has_rng(d):
    return d["t"] != "const"


def bounds(d):
    t = d["t"]
    if t == "const":
        return d["v"], d["v"]
    lo = d["lo"] if d["lo"] is not None else -math.inf
    hi = d["hi"] if d["hi"] is not None else math.inf
    return lo, hi


def candidates(d, raw):
    """exact values the model can compute from one raw draw each."""
    t = d["t"]
    if t == "const":
        return [fr(d["v"])]
    if t == "tophat":
        return [fr(d["lo"]) + (fr(d["hi"]) - fr(d["lo"])) * fr(u) for u in raw]
    return [fr(d["c"]) + fr(d["d"]) * fr(z) for z in raw]


def raw_stream(d, seed, n):
    g = np.random.default_rng(seed)
    if d["t"] == "tophat":
        return [float(x) for x in g.random(n)]
    return [float(x) for x in g.standard_normal(n)]


def sub_seeds(seed):
    return [int(x) for x in np.random.default_rng(seed).integers(2**31 - 1, size=3)]


class Tables:
    def __init__(self):
        self.cis, self.bs, self.sqrt = {}, {}, {}
        self.ints, self.unif, self.norm = {}, {}, {}

    def add_cis(self, x):
        x = fr(x)
        if x not in self.cis:
            f = float(x)
            self.cis[x] = (float(np.cos(f)), float(np.sin(f)))

    def add_bs(self, r):
        r = fr(r)
        if r not in self.bs and 0 <= r <= 1:
            th = np.arccos(float(r) ** 0.5)
            self.bs[r] = (float(np.cos(th)), float(np.sin(th)))

    def add_sqrt_loss(self, l):
        l = fr(l)
        if 0 <= l <= 1 and (1 - l) not in self.sqrt:
            self.sqrt[1 - l] = float((1 - float(l)) ** 0.5)

    def coq(self):
        cis = clist(f"({q(k)}, ({q(v[0])}, {q(v[1])}))" for k, v in self.cis.items())
        bs = clist(f"({q(k)}, ({q(v[0])}, {q(v[1])}))" for k, v in self.bs.items())
        sq = clist(f"({q(k)}, {q(v)})" for k, v in self.sqrt.items())
        ints = clist(f"({cz(k)}, {clist(cz(x) for x in v)})" for k, v in self.ints.items())
        unif = clist(f"({cz(k)}, {clist(q(x) for x in v)})" for k, v in self.unif.items())
        norm = clist(f"({cz(k)}, {clist(q(x) for x in v)})" for k, v in self.norm.items())
        return f"(mkTables {cis} {bs} {sq} {q(PI)} {ints} {unif} {norm})"


def em_tables(tb, em, seed, need):
    """streams / derived seeds / function tables for an error model seeded with [seed]."""
    if not isinstance(seed, int) or isinstance(seed, bool):
        return
    subs = sub_seeds(seed)
    tb.ints[seed] = subs
    k = 0
    for name in ("bs", "loss", "phase"):
        d = em[name]
        if not dist_ok(d):
            return
        raw = []
        if has_rng(d):
            raw = raw_stream(d, subs[k], need[name])
            (tb.unif if d["t"] == "tophat" else tb.norm)[subs[k]] = raw
            k += 1
        for v in candidates(d, raw):
            if name == "bs":
                tb.add_bs(v)
            elif name == "loss":
                tb.add_sqrt_loss(v)
            else:
                tb.add_cis(v)


def coq_seed(s):
    if s is None:
        return "SeedNone"
    if isinstance(s, bool) or not isinstance(s, (int, float)):
        return "SeedBad"
    if isinstance(s, float):
        return f"(SeedInt {cz(int(s))})" if int(s) == s else "SeedBad"
    return f"(SeedInt {cz(s)})"


def py_seed(s):
    return pyv(s)


DEFAULT_EM = {"bs": {"t": "const", "v": 0.5}, "loss": {"t": "const", "v": 0}, "phase": {"t": "const", "v": 0}}


def build_em(em):
    e = ErrorModel()
    e.bs_reflectivity = mk_dist(em["bs"])
    e.loss = mk_dist(em["loss"])
    e.phase_offset = mk_dist(em["phase"])
    return e


def record_draws(e):
    """wrap value() of the three distribution objects so every drawn value is seen."""
    log = {"bs": [], "loss": [], "phase": []}
    for name, d in (("bs", e.bs_reflectivity), ("loss", e.loss), ("phase", e.phase_offset)):
        orig = d.value

        def wrapped(orig=orig, name=name):
            v = orig()
            log[name].append(float(v))
            return v
        d.value = wrapped
    return log


# ----------------------------------------------------------------------------
# unitaries
# ----------------------------------------------------------------------------
def _givens(n, a, b, c, s, ph=1.0):
    g = np.identity(n, dtype=complex)
    g[a, a], g[a, b], g[b, a], g[b, b] = c, -s * ph, s * np.conj(ph), c
    return g


def _phase(rng):
    return rng.choice([1, -1, 1j, -1j, np.exp(1j * rng.uniform(0, TWO_PI))])


CATS = ["haar", "identity", "perm", "permphase", "givens", "block", "neardeg", "tiny", "dft", "real",
        "twolevel", "rowunit", "diag"]


def gen_unitary(rng, n, cat):
    if cat == "haar" or n == 1 and cat not in ("identity", "diag"):
        return lw.random_unitary(n, seed=rng.randrange(2**31))
    if cat == "identity":
        return np.identity(n, dtype=complex)
    if cat == "diag":
        return np.diag([_phase(rng) for _ in range(n)]).astype(complex)
    if cat in ("perm", "permphase"):
        p = list(range(n))
        rng.shuffle(p)
        U = np.zeros((n, n), dtype=complex)
        for j in range(n):
            U[p[j], j] = _phase(rng) if cat == "permphase" else 1
        return U
    if cat == "givens":
        U = np.identity(n, dtype=complex)
        for _ in range(rng.randint(1, n)):
            a, b = rng.sample(range(n), 2)
            kind = rng.randrange(5)
            if kind == 0:
                c, s = 0.6, 0.8
            elif kind == 1:
                t = rng.uniform(0, TWO_PI)
                c, s = math.cos(t), math.sin(t)
            elif kind == 2:
                c, s = math.cos(PI / 2), math.sin(PI / 2)      # c = 6e-17
            elif kind == 3:
                c, s = math.cos(PI / 4), math.sin(PI / 4)
            else:
                c, s = 0.0, 1.0
            U = _givens(n, a, b, c, s, _phase(rng)) @ U
        return U
    if cat == "block":
        U = np.zeros((n, n), dtype=complex)
        k = 0
        while k < n:
            sz = rng.randint(1, n - k)
            U[k:k + sz, k:k + sz] = lw.random_unitary(sz, seed=rng.randrange(2**31))
            k += sz
        return U
    if cat == "neardeg":
        eps = rng.choice([1e-5, 1e-7, 1e-9, 1e-12, 1e-14])
        g = np.random.default_rng(rng.randrange(2**31))
        H = g.normal(size=(n, n)) + 1j * g.normal(size=(n, n))
        H = (H + H.conj().T) / 2
        w, v = np.linalg.eigh(H)
        U = (v * np.exp(1j * eps * w)) @ v.conj().T
        if rng.random() < 0.5:
            U = gen_unitary(rng, n, "permphase") @ U
        return U
    if cat == "tiny":
        # rotations by tiny angles: entries of size 1e-9 ... 1e-30 (well away from the 1e-20 threshold)
        U = gen_unitary(rng, n, rng.choice(["identity", "perm", "block", "haar"]))
        for _ in range(rng.randint(1, 2)):
            a, b = rng.sample(range(n), 2)
            t = rng.choice([1e-9, 1e-11, 1e-13, 1e-15, 1e-17, 1e-25, 1e-30])
            U = U @ _givens(n, a, b, math.cos(t), math.sin(t), _phase(rng))
        return U
    if cat == "dft":
        return np.array([[np.exp(2j * PI * j * k / n) for k in range(n)] for j in range(n)]) / math.sqrt(n)
    if cat == "real":
        g = np.random.default_rng(rng.randrange(2**31))
        qm, r = np.linalg.qr(g.normal(size=(n, n)))
        return (qm * np.sign(np.diag(r))).astype(complex)
    if cat == "twolevel":
        a, b = rng.sample(range(n), 2)
        U = np.identity(n, dtype=complex)
        V = lw.random_unitary(2, seed=rng.randrange(2**31))
        U[a, a], U[a, b], U[b, a], U[b, b] = V[0, 0], V[0, 1], V[1, 0], V[1, 1]
        return U
    if cat == "rowunit":
        # last rows are unit vectors: u_ij and u_ij+1 both exactly zero in many steps
        k = rng.randint(1, n - 1)
        U = np.zeros((n, n), dtype=complex)
        U[:k, :k] = lw.random_unitary(k, seed=rng.randrange(2**31))
        for r in range(k, n):
            U[r, r] = _phase(rng)
        P = gen_unitary(rng, n, "perm")
        return U @ P if rng.random() < 0.5 else P @ U
    raise ValueError(cat)


def my_bs(n, j, theta, phi):
    """independent statement of the unit-cell matrix on (j, j+1)."""
    t = np.identity(n, dtype=complex)
    g = 1j * np.exp(0.5j * theta)
    e = np.exp(1j * phi)
    c, s = math.cos(theta / 2), math.sin(theta / 2)
    t[j, j], t[j, j + 1], t[j + 1, j], t[j + 1, j + 1] = -e * s * g, c * g, e * c * g, s * g
    return t


def parse_phase_map(pm):
    """-> (keys [(a, b)], [(theta, phi)]) or raises if the layout is unexpected."""
    items = list(pm.items())
    keys, angs = [], []
    for k in range(0, len(items), 2):
        (kb, th), (kp, ph) = items[k], items[k + 1]
        tb, a, b = kb.split("_")
        tp, a2, b2 = kp.split("_")
        if (tb, tp) != ("bs", "ps") or (a, b) != (a2, b2):
            raise ValueError(f"unexpected phase_map layout {kb} {kp}")
        keys.append([int(a), int(b)])
        angs.append([float(th), float(ph)])
    return keys, angs


def observe_circuit(m):
    spec = []
    for s in m._get_circuit_spec():
        nm = type(s).__name__
        if nm == "Barrier":
            spec.append([0, [int(x) for x in s.modes]])
        elif nm == "PhaseShifter":
            spec.append([1, int(s.mode), float(s.phi)])
        elif nm == "BeamSplitter":
            spec.append([2, int(s.mode_1), int(s.mode_2), float(s.reflectivity), s.convention])
        elif nm == "Loss":
            spec.append([3, int(s.mode), float(s.loss)])
        else:
            spec.append([9, nm])
    h = m.heralds
    return {"spec": spec, "hin": [[int(a), int(b)] for a, b in h["input"].items()],
            "hout": [[int(a), int(b)] for a, b in h["output"].items()], "U": frommat(m.U), "n": int(m.n_modes)}


def errname(e):
    n = type(e).__name__
    return n if n in core.ERR_CODES.values() else "OtherError"


def guarded(fn):
    try:
        return {"ok": fn()}
    except Exception as e:  # noqa: BLE001
        return {"err": errname(e), "cls": type(e).__name__}


# ----------------------------------------------------------------------------
class C14:
    ID = "C14"
    RULE = ("unitaries of 13 families (Haar, identity, diagonal, permutation with/without phases, products of "
            "Givens rotations incl. exact 0/1 and cos(pi/2)=6e-17 amplitudes, block-diagonal, exp(i eps H) with "
            "eps 1e-5..1e-14, rotations by 1e-9..1e-30, DFT, real orthogonal, two-level, unit rows) of size 1-6 "
            "(thorough: 1-8) for reck_decomposition and Reck.map (default and random error models from "
            "Constant/TopHat/Gaussian, seeds, heralds, prior call histories, lossy/non-unitary and malformed inputs); "
            "distribution and ErrorModel draw sequences against the replicated numpy streams; "
            "Reck configured through the constructor, the error_model setter, in-place assignment on its default error "
            "model, or re-pointed after use with another noisy model; second mapping after a successful map of another circuit and "
            "two refused calls (bad seed, lossy circuit) on the same object; boundary seeds 0/1/0.0; error-model values exactly on "
            "0/1/2 pi and zero-width windows; circuits without components, with zero-loss elements and live Parameters; real and "
            "integer arrays for reck_decomposition; arguments (matrix, circuit) must be left unchanged; a case is non-trivial "
            "when n>=2 (decomp/map) or a random distribution is drawn from; distinct = distinct canonical JSON")
    TRUSTED = ["Python float evaluation of cos/sin/arccos/sqrt feeds the model's oracle tables (keys are the exact rationals the model computes)",
               "np.arctan/np.angle answers are taken from the implementation and checked by the model's exact product (result checking)",
               "numpy Generator streams (random, standard_normal, integers) are replicated from the seed by the harness",
               "the n x n effect of a Loss component (factor sqrt(1-loss) on its mode) is taken from C01's model"]
    ASSUMPTIONS = ["the theorem C14_reck_reconstructs assumes the nulled matrix is diagonal (what check_null tests); C14_nulled_is_diagonal_partial / C14_reck_map_reproduces_partial discharge this for every exactly unitary input in exact arithmetic provided no entry met by the loop has modulus strictly between 0 and 1e-20 (not proved without that proviso, nor for floats: the run measures the exact off-diagonal residue instead)",
                   "seed=None (OS entropy) cases are checked by the oracle only (bounds, validity), not against the model's values",
                   "finding (signature constant-accepts-sequence, reported when the malformed stream draws it): Constant([0.5]) / Constant((0.5,)) / Constant([]) is accepted because dists/utils.is_number treats a list/tuple as several values; the model answers TypeError",
                   "an implementation call that does not return within 30 s (3 s after the first such case) is reported as a failure of the oracle (resampling loop that never ends)",
                   "float rounding: phases are compared on the circle; the value float(2*pi) is accepted as < 2*pi (it is, by 2.4e-16)"]
    CHUNK = 6

    def __init__(self):
        self._cache = {}
        self._timeouts = 0

    # ---------------------------------------------------------------- generate
    def generate(self, rng, tier):
        thorough = tier == "thorough"
        cases = []
        nmax = 8 if thorough else 6
        # --- decompositions
        reps = 14 if thorough else 1
        for rep in range(reps):
            for cat in CATS:
                for n in range(1, nmax + 1):
                    if n == 1 and cat not in ("haar", "identity", "diag"):
                        continue
                    if not thorough and cat not in ("haar", "perm", "givens", "tiny", "neardeg") and n in (3, 5):
                        continue
                    if cat == "rowunit" and n < 2:
                        continue
                    U = gen_unitary(rng, n, cat)
                    cases.append(dict(kind="decomp", cat=cat, n=n, U=frommat(U)))
        # non-unitary inputs
        for _ in range(20 if thorough else 4):
            n = rng.randint(1, 4)
            U = gen_unitary(rng, n, "haar") * rng.choice([0.9, 1 + 1e-6, 0.0])
            cases.append(dict(kind="decomp", cat="nonunitary", n=n, U=frommat(U)))
        # --- maps, default error model
        nm = 160 if thorough else 22
        for k in range(nm):
            n = rng.randint(1, nmax if k % 3 else min(nmax, 4))
            cat = CATS[k % len(CATS)]
            if n == 1:
                cat = "haar"
            if cat == "rowunit" and n < 2:
                cat = "perm"
            U = gen_unitary(rng, n, cat)
            her = []
            if rng.random() < 0.6 and n >= 2:
                k_h = rng.randint(1, min(3, n))
                ins, outs = rng.sample(range(n), k_h), rng.sample(range(n), k_h)
                her = [[rng.randint(0, 2), a, b] for a, b in zip(ins, outs)]
            cases.append(dict(kind="map", cat=cat, n=n, U=frommat(U), her=her, em=copy.deepcopy(DEFAULT_EM),
                              seed=rng.choice([None, None, rng.randrange(10**6), 0, 1]), hist=[0, 0, 0], circ="unitary",
                              api=k % 4))
        # library / hand-built circuits: heralded gates, circuits of components (with a live Parameter, with loss elements
        # whose loss is exactly 0 - still a lossless circuit), a circuit without any component, a lossy one (refused)
        for name in (["cnot_h", "cz_h", "lossy", "empty", "zeroloss", "built"] if not thorough else
                     ["cnot_h", "cz_h", "lossy", "cnot", "cz", "built", "built", "built", "lossy", "empty", "zeroloss", "zeroloss"]):
            cases.append(dict(kind="map", cat="lib", n=0, U=None, her=[], em=copy.deepcopy(DEFAULT_EM), seed=None,
                              hist=[0, 0, 0], circ=name, cseed=rng.randrange(10**6), api=rng.randrange(4)))
        # --- maps, random error models
        nm = 160 if thorough else 20
        for k in range(nm):
            n = rng.randint(2, min(nmax, 6) if k % 4 else 3)
            U = gen_unitary(rng, n, rng.choice(["haar", "haar", "perm", "givens", "identity", "block"]))
            em = self._gen_em(rng, valid=(k % 8 != 7))
            her = [[1, rng.randrange(n), rng.randrange(n)]] if rng.random() < 0.3 else []
            seed = rng.randrange(2**31) if k % 7 else None
            if k % 23 == 5:
                seed = rng.choice([{"bad": "str"}, {"bad": "bool"}, 2.5, 3.0])
            if k % 10 == 3:
                seed = [0, 1, 0.0][(k // 10) % 3]                 # boundary seeds: 0 is a seed, not "no seed"
            if k % 10 == 6:                                       # values exactly on the limits of what a component accepts
                em = {"bs": rng.choice([{"t": "const", "v": 0}, {"t": "const", "v": 1}, {"t": "const", "v": 1.0},
                                        {"t": "tophat", "lo": 0, "hi": 1}, {"t": "tophat", "lo": 1.0, "hi": 1.0}]),
                      "loss": rng.choice([{"t": "const", "v": 0.0}, {"t": "const", "v": 1}, {"t": "tophat", "lo": 0, "hi": 0},
                                          {"t": "gauss", "c": 0, "d": 0, "lo": 0, "hi": 0}]),
                      "phase": rng.choice([{"t": "const", "v": 0.0}, {"t": "const", "v": -6.283185307179586},
                                           {"t": "tophat", "lo": 6.283185307179586, "hi": 6.283185307179586}])}
            cases.append(dict(kind="map", cat="noisy", n=n, U=frommat(U), her=her, em=em, seed=seed,
                              hist=[rng.randint(0, 5) for _ in range(3)], circ="unitary", api=k % 4))
        # --- distributions
        nd = 600 if thorough else 60
        for k in range(nd):
            d = self._gen_dist(rng, rng.choice(["bs", "loss", "phase", "wide"]), valid=(k % 6 != 5), malformed=(k % 6 == 5))
            cases.append(dict(kind="dist", d=d, seed=(rng.randrange(2**31) if k % 12 != 4 else [0, 1][(k // 12) % 2]),
                              count=rng.randint(1, 12)))
        # --- error models: seed derivation, histories
        ne = 400 if thorough else 40
        for k in range(ne):
            em = self._gen_em(rng, valid=True, force_random=(k % 2 == 0))
            seed = rng.randrange(2**31) if k % 9 else [0, 1, 2**31 - 2, 2**40 + 3, 0][(k // 9) % 5]
            if k % 17 == 3:
                seed = rng.choice([{"bad": "str"}, {"bad": "bool"}, 1.5, 4.0])
            cases.append(dict(kind="em", em=em, seed=seed, hist=[rng.randint(0, 6) for _ in range(3)],
                              calls=[rng.randrange(3) for _ in range(rng.randint(1, 14))]))
        return cases

    def _gen_dist(self, rng, role, valid=True, malformed=False):
        if malformed:
            bad = rng.choice([{"bad": "str"}, {"bad": "bool"}, {"bad": "list"}, None])
            t = rng.choice(["const", "tophat", "gauss", "tophat_rev", "gauss_rev", "gauss_neg"])
            if t == "const":
                return {"t": "const", "v": bad}
            if t == "tophat":
                return {"t": "tophat", "lo": rng.choice([0.1, bad]), "hi": bad}
            if t == "gauss":
                d = {"t": "gauss", "c": 0.5, "d": 0.1, "lo": None, "hi": None}
                d[rng.choice(["c", "d", "lo", "hi"])] = bad
                return d
            if t == "tophat_rev":
                return {"t": "tophat", "lo": 0.7, "hi": rng.choice([0.2, 0.7 - 1e-9])}
            if t == "gauss_rev":
                return {"t": "gauss", "c": 0.5, "d": 0.1, "lo": 0.6, "hi": 0.4}
            return {"t": "gauss", "c": 0.5, "d": -0.1, "lo": None, "hi": None}
        t = rng.choice(["const", "tophat", "gauss", "gauss"])
        if role == "bs":
            c, w = rng.choice([0.5, 0.45, 0.3]), rng.choice([0.0, 0.02, 0.1, 0.25])
            lo, hi = max(0.0, c - w), min(1.0, c + w)
        elif role == "loss":
            c, w = rng.choice([0.0, 0.05, 0.2]), rng.choice([0.0, 0.03, 0.2])
            lo, hi = max(0.0, c - w), min(1.0, c + w)
        elif role == "phase":
            c, w = rng.choice([0.0, 0.1, -0.2, 3.0]), rng.choice([0.0, 0.02, 0.5])
            lo, hi = c - w, c + w
        else:
            c, w = rng.uniform(-5, 5), rng.choice([0.0, 1e-3, 1.0, 10.0])
            lo, hi = c - w, c + w
        if not valid:      # bounds reaching outside [0, 1]: bs()/loss validation must reject a bad draw
            lo, hi = lo - 0.8, hi + 0.8
        if t == "const":
            return {"t": "const", "v": rng.choice([c, lo, hi, int(round(c))]) if role in ("phase", "wide") else rng.choice([c, lo, hi])}
        if t == "tophat":
            return {"t": "tophat", "lo": lo, "hi": hi}
        dev = rng.choice([0.0, w / 2, w, 2 * w]) if w > 0 else rng.choice([0.0, 0.01])
        if w == 0 and dev > 0:      # a zero-width window is never hit (Gaussian.value would loop for ever): widen
            lo, hi = (max(0.0, c - 0.02), min(1.0, c + 0.02)) if role in ("bs", "loss") else (c - 0.02, c + 0.02)
        if rng.random() < 0.2 and role in ("phase", "wide"):
            return {"t": "gauss", "c": c, "d": dev, "lo": rng.choice([None, lo]), "hi": rng.choice([None, hi])}
        # resampling must terminate quickly: keep the centre inside the window
        return {"t": "gauss", "c": min(max(c, lo), hi), "d": dev, "lo": lo, "hi": hi}

    def _gen_em(self, rng, valid=True, force_random=False):
        em = {"bs": self._gen_dist(rng, "bs", valid=valid or rng.random() < 0.5),
              "loss": self._gen_dist(rng, "loss", valid=valid or rng.random() < 0.5),
              "phase": self._gen_dist(rng, "phase")}
        if force_random and all(not has_rng(em[k]) for k in em):
            em[rng.choice(["bs", "loss", "phase"])] = {"t": "tophat", "lo": 0.1, "hi": 0.3}
        return em

    # -------------------------------------------------------------------- impl
    def _circuit(self, c):
        name = c["circ"]
        if name == "unitary":
            circ = lw.Unitary(tomat(c["U"]))
        elif name == "cnot_h":
            circ = lw.qubit.CNOT_Heralded()
        elif name == "cz_h":
            circ = lw.qubit.CZ_Heralded()
        elif name == "cnot":
            circ = lw.qubit.CNOT()
        elif name == "cz":
            circ = lw.qubit.CZ()
        elif name == "empty":
            circ = lw.Circuit(1 + c["cseed"] % 4)
        elif name in ("built", "lossy", "zeroloss"):
            import random as _r
            r = _r.Random(c["cseed"])
            n = r.randint(2, 5)
            circ = lw.Circuit(n)
            if name == "zeroloss":
                circ.loss(r.randrange(n), 0)
                circ.bs(r.randrange(n - 1), loss=0)
                circ.loss(r.randrange(n), lw.Parameter(0))
                circ.ps(r.randrange(n), lw.Parameter(r.uniform(-3, 3)))
            for _ in range(r.randint(1, 8)):
                op = r.randrange(3)
                if op == 0:
                    circ.bs(r.randrange(n - 1), reflectivity=r.choice([0.5, 0.36, 0.0, 1.0, r.random()]))
                elif op == 1:
                    circ.ps(r.randrange(n), r.choice([0, PI, r.uniform(-7, 7)]))
                else:
                    p = list(range(n))
                    r.shuffle(p)
                    circ.mode_swaps({i: p[i] for i in range(n)})
            if name == "lossy":
                circ.loss(r.randrange(n), 0.3)
        else:
            raise ValueError(name)
        for nph, a, b in c["her"]:
            try:
                circ.herald(nph, a, b)
            except ValueError:
                pass
        return circ

    def _history(self, reck_or_em, hist):
        """prior use of the error model: draw hist[k] values from the k-th distribution."""
        e = reck_or_em
        for k, getter in enumerate((e.get_bs_reflectivity, e.get_loss, e.get_phase_offset)):
            for _ in range(hist[k]):
                try:
                    getter()
                except Exception:  # noqa: BLE001
                    break

    def impl(self, c):
        old = signal.signal(signal.SIGALRM, _on_alarm)
        budget = IMPL_TIMEOUT if not self._timeouts else 3      # after one hang, do not wait long again
        signal.setitimer(signal.ITIMER_REAL, budget)
        try:
            obs = self._impl(c)
        except ImplTimeout:
            self._timeouts += 1
            obs = {"timeout": budget}
        finally:
            signal.setitimer(signal.ITIMER_REAL, 0)
            signal.signal(signal.SIGALRM, old)
        self._cache[_key(c)] = obs
        return obs

    def _impl(self, c):
        k = c["kind"]
        if k == "decomp":
            U = tomat(c["U"])

            def run():
                arg = U.copy()
                if np.all(arg.imag == 0) and c.get("cat") in ("identity", "perm", "real", "givens", "block"):
                    # matrices without imaginary part are also given as real / integer arrays
                    arg = arg.real.copy()
                    if np.all(arg == np.round(arg)):
                        arg = arg.astype(int)
                arg0 = arg.copy()
                pm, ep = reck_decomposition(arg)
                keys, angs = parse_phase_map(pm)
                return {"keys": keys, "angs": angs, "end": [float(x) for x in ep],
                        "arg_kept": bool(np.array_equal(arg, arg0) and arg.dtype == arg0.dtype)}
            return guarded(run)
        if k == "dist":
            def run():
                d = mk_dist(c["d"])
                if hasattr(d, "set_random_seed"):
                    d.set_random_seed(c["seed"])
                vals = []
                for _ in range(c["count"]):
                    try:
                        v = d.value()
                        if isinstance(v, bool) or not isinstance(v, (int, float, np.integer, np.floating)):
                            vals.append({"err": "TypeError", "not_a_number": repr(v)})     # what any numeric use would raise
                            break
                        vals.append({"ok": float(v)})
                    except Exception as e:  # noqa: BLE001
                        vals.append({"err": errname(e)})
                        break
                return vals
            return guarded(run)
        if k == "em":
            def one(hist, extra):
                e = build_em(c["em"])
                self._history(e, hist)
                if extra:
                    e._set_random_seed(12345)
                    self._history(e, [2, 1, 3])
                e._set_random_seed(py_seed(c["seed"]))
                vals = []
                for call in c["calls"]:
                    try:
                        vals.append({"ok": float((e.get_bs_reflectivity, e.get_loss, e.get_phase_offset)[call]())})
                    except Exception as ex:  # noqa: BLE001
                        vals.append({"err": errname(ex)})
                        break
                return vals

            def run():
                return {"vals": one(c["hist"], False), "again": one([0, 0, 0], True)}
            return guarded(run)
        if k == "map":
            circ = self._circuit(c)
            Uc = circ.U
            her0 = circ.heralds
            pre = guarded(lambda: parse_phase_map(reck_decomposition(np.flip(Uc, axis=(0, 1)))[0]))
            pre_end = guarded(lambda: [float(x) for x in reck_decomposition(np.flip(Uc, axis=(0, 1)))[1]])

            api = c.get("api", 0)

            def one(hist, extra):
                # the four ways of giving a Reck its error model: constructor argument; the error_model setter of a
                # default-constructed Reck; distributions assigned in place on the Reck's own default error model;
                # a Reck that was built and USED with another (noisy) error model and is then re-pointed
                if api == 1:
                    e = build_em(c["em"])
                    r = Reck()
                    r.error_model = e
                elif api == 2:
                    r = Reck()
                    e = r.error_model
                    e.bs_reflectivity = mk_dist(c["em"]["bs"])
                    e.loss = mk_dist(c["em"]["loss"])
                    e.phase_offset = mk_dist(c["em"]["phase"])
                elif api == 3:
                    e0 = build_em({"bs": {"t": "tophat", "lo": 0.4, "hi": 0.6}, "loss": {"t": "const", "v": 0.1},
                                   "phase": {"t": "gauss", "c": 0.1, "d": 0.05, "lo": None, "hi": None}})
                    r = Reck(e0)
                    r.map(lw.Unitary(lw.random_unitary(3, seed=4)), seed=5)
                    e = build_em(c["em"])
                    r.error_model = e
                else:
                    e = build_em(c["em"])
                    r = Reck(e)
                self._history(e, hist)
                if extra:
                    # the same Reck object used before: a successful mapping of another circuit, then two calls that
                    # must fail (a lossy circuit, a seed that is not a number) - none of this may leave anything behind
                    try:
                        r.map(lw.Unitary(lw.random_unitary(2, seed=1)), seed=99)
                    except ValueError:       # an error model whose bounds reach outside [0, 1] may refuse this mapping
                        pass
                    lossy = lw.Circuit(2)
                    lossy.bs(0, loss=0.4)
                    for bad in (lambda: r.map(circ, seed="seven"), lambda: r.map(lossy, seed=3)):
                        try:
                            bad()
                        except Exception:  # noqa: BLE001
                            pass
                log = record_draws(e)
                m = r.map(circ, seed=py_seed(c["seed"])) if extra else r.map(circ, py_seed(c["seed"]))
                o = observe_circuit(m)
                o["draws"] = log
                return o

            first = guarded(lambda: one(c["hist"], False))
            out = {"first": first, "Uc": frommat(Uc), "n": int(circ.n_modes),
                   "her0": [[[int(a), int(b)] for a, b in her0["input"].items()],
                            [[int(a), int(b)] for a, b in her0["output"].items()]],
                   "pre": pre.get("ok"), "pre_end": pre_end.get("ok")}
            if "ok" in first:
                out["again"] = guarded(lambda: one([0, 0, 0], True))

            def default_map():
                # the DEFAULT error model: a default-constructed Reck whose error model is modified in place and
                # which is thrown away must not affect the next default-constructed Reck
                from lightworks.interferometers.dists import Constant
                d0 = Reck()
                d0.error_model.loss = Constant(0.3)
                d0.error_model.phase_offset = Constant(0.2)
                m = Reck().map(circ)
                uf = np.array(m.U_full)
                return {"dim": int(uf.shape[0]), "dev": float(np.abs(np.array(m.U) - Uc).max()) if uf.shape[0] == Uc.shape[0] else None}
            out["dflt"] = guarded(default_map)
            # the circuit that was mapped (several times by now) is still the circuit it was
            her1 = circ.heralds
            out["circ_kept"] = bool(np.array_equal(np.array(circ.U), Uc) and list(her1["input"].items()) == list(her0["input"].items())
                                    and list(her1["output"].items()) == list(her0["output"].items()))
            return out
        raise ValueError(k)

    # ------------------------------------------------------------------- model
    def coq_header(self):
        return ("From Coq Require Import ZArith List.\nFrom Bignums Require Import BigZ.\n"
                "From LW Require Import Base.Num Base.Mat Base.Sx Model.Reck Exec.RunC14.\nImport ListNotations.\n")

    def _obs(self, c):
        o = self._cache.get(_key(c))
        if o is None:
            o = self.impl(c)
        return o

    def _skip_model(self, c):
        if c["kind"] == "map":
            em = c["em"]
            rnd = any(dist_ok(em[k]) and has_rng(em[k]) for k in em)
            return rnd and c["seed"] is None
        return False

    def coq_expr(self, c):
        k = c["kind"]
        obs = self._obs(c)
        if "timeout" in obs:
            return "SL nil"
        tb = Tables()
        tb.add_cis(0)
        tb.add_cis(fr(PI) / 2)
        if k == "decomp":
            n = c["n"]
            ans, ends = [], [0.0] * n
            if "ok" in obs:
                ans, ends = obs["ok"]["angs"], obs["ok"]["end"]
            for th, ph in ans:
                tb.add_cis(fr(th) / 2)
                tb.add_cis(ph)
            for a in ends:
                tb.add_cis(a)
            return (f"run_decomp {tb.coq()} {cn(n)} {cmat(tomat(c['U']))} "
                    f"{clist(f'({q(a)}, {q(b)})' for a, b in ans)} {clist(q(a) for a in ends)}")
        if k == "dist":
            d = c["d"]
            need = c["count"] * 8 + 40
            if dist_ok(d) and has_rng(d):
                raw = raw_stream(d, c["seed"], need)
                (tb.unif if d["t"] == "tophat" else tb.norm)[c["seed"]] = raw
            return f"run_dist {tb.coq()} {coq_dist(d)} {cz(c['seed'])} {cn(FUEL)} {cn(c['count'])}"
        if k == "em":
            need = {nm: len(c["calls"]) * 8 + 40 for nm in ("bs", "loss", "phase")}
            em_tables(tb, c["em"], c["seed"] if not isinstance(c["seed"], float) else (int(c["seed"]) if int(c["seed"]) == c["seed"] else None), need)
            em = c["em"]
            return (f"run_em {tb.coq()} {coq_dist(em['bs'])} {coq_dist(em['loss'])} {coq_dist(em['phase'])} "
                    f"{clist(cn(h) for h in c['hist'])} {coq_seed(c['seed'])} {cn(FUEL)} {clist(cn(x) for x in c['calls'])}")
        if k == "map":
            if self._skip_model(c):
                return "SL nil"
            n = obs["n"]
            Uc = tomat(obs["Uc"])
            ans, ends = [], [0.0] * n
            if obs["pre"] is not None and obs["pre_end"] is not None:
                ans, ends = obs["pre"][1], obs["pre_end"]
            for th, ph in ans:
                tb.add_cis(fr(th) / 2)
                tb.add_cis(ph)
            for a in ends:
                tb.add_cis(a)
            K = n * (n - 1) // 2
            need = {"bs": 2 * K * 5 + 40, "loss": K * 5 + 40, "phase": (2 * K + n) * 5 + 40}
            em = c["em"]
            seed = c["seed"]
            if isinstance(seed, float):
                seed = int(seed) if int(seed) == seed else None
            em_tables(tb, em, seed, need)
            if all(dist_ok(em[x]) for x in em):
                for x in ("bs", "loss", "phase"):     # constants are in the tables even without a seed
                    if not has_rng(em[x]):
                        v = fr(em[x]["v"])
                        (tb.add_bs if x == "bs" else tb.add_sqrt_loss if x == "loss" else tb.add_cis)(v)
            hin, hout = obs["her0"]
            hs = lambda h: clist(f"({cn(a)}, {cz(b)})" for a, b in h)
            return (f"run_map {tb.coq()} {coq_dist(em['bs'])} {coq_dist(em['loss'])} {coq_dist(em['phase'])} "
                    f"{clist(cn(h) for h in c['hist'])} {coq_seed(c['seed'])} {cn(FUEL)} {cn(n)} {cmat(Uc)} "
                    f"{hs(hin)} {hs(hout)} {clist(f'({q(a)}, {q(b)})' for a, b in ans)} {clist(q(a) for a in ends)}")
        raise ValueError(k)

    def decode(self, c, sx):
        k = c["kind"]
        us = core.unscale
        if "timeout" in self._obs(c):
            return None
        dres = lambda x: {"ok": us(x[1])} if x[0] == 0 else {"err": core.ERR_CODES.get(x[1], f"code{x[1]}")}
        mat = lambda m: [[[us(a), us(b)] for a, b in row] for row in m]
        rng = lambda g: {"seeded": bool(g[0]), "src": g[1], "pos": g[2]}
        if k == "decomp":
            r = core.decode_res(sx)
            if "ok" in r:
                recs, end, D, R = r["ok"]
                r["ok"] = {"keys": [[a, b] for a, b, _, _, _ in recs], "small": [bool(s) for _, _, s, _, _ in recs],
                           "angs": [[us(t), us(p)] for _, _, _, t, p in recs], "end": [us(x) for x in end],
                           "D": mat(D), "R": mat(R)}
            return r
        if k == "dist":
            r = core.decode_res(sx)
            if "ok" in r:
                r["ok"] = {"vals": [dres(x) for x in r["ok"][0]], "rng": rng(r["ok"][1])}
            return r
        if k == "em":
            r = core.decode_res(sx)
            if "ok" in r:
                r["ok"] = {"rng": [rng(g) for g in r["ok"][0]], "vals": [dres(x) for x in r["ok"][1]]}
            return r
        if k == "map":
            if self._skip_model(c):
                return None
            r = core.decode_res(sx)
            if "ok" in r:
                spec, hin, hout, U, rngs = r["ok"]
                sp = []
                for s in spec:
                    if s[0] == 0:
                        sp.append([0, s[1]])
                    elif s[0] == 1:
                        sp.append([1, s[1], us(s[2])])
                    elif s[0] == 2:
                        sp.append([2, s[1], s[2], us(s[3])])
                    else:
                        sp.append([3, s[1], us(s[2])])
                r["ok"] = {"spec": sp, "hin": hin, "hout": hout, "U": mat(U), "rng": [rng(g) for g in rngs]}
            return r
        raise ValueError(k)

    # ----------------------------------------------------------------- compare
    def compare(self, c, a, b):
        k = c["kind"]
        if "timeout" in a:
            return None          # reported by the oracle
        if k == "decomp":
            if ("err" in a) != ("err" in b):
                return f"outcome: implementation {_short(a)} vs model {_short(b)}"
            if "err" in a:
                return None if a["err"] == b["err"] else f"error class {a['err']} vs {b['err']}"
            A, B = a["ok"], b["ok"]
            if A["keys"] != B["keys"]:
                return f"phase_map keys/order differ: {A['keys']} vs {B['keys']}"
            U = np.array(tomat(c["U"]))
            for s, (x, y), (xm, ym), sm in zip(range(10**6), A["angs"], B["angs"], B["small"]):
                if sm and not (x == PI and y == 0):
                    if abs(U).max() > 0 and not _straddle_ok(c):
                        return f"step {s}: model takes the |u|<1e-20 branch, implementation programmed ({x}, {y})"
                if abs(x - xm) > TOL or abs(y - ym) > TOL:
                    return f"step {s}: angles ({x}, {y}) vs model ({xm}, {ym})"
            d = core.approx_equal(A["end"], B["end"], TOL, "end_phases")
            if d:
                return d
            n = c["n"]
            D, R = np.array(tomat(B["D"])), np.array(tomat(B["R"]))
            off = D - np.diag(np.diag(D))
            if n and abs(off).max() > TOL:
                return f"model: nulled matrix (exact product with the implementation's angles) not diagonal, max off-diagonal {abs(off).max():.3g}"
            if n and abs(np.diag(D) - np.exp(1j * np.array(A["end"]))).max() > TOL:
                return "model: diagonal of the nulled matrix differs from exp(i end_phases)"
            if n and abs(R - U).max() > TOL:
                return f"model: D.T_K...T_1 rebuilt exactly from the implementation's phases differs from U by {abs(R - U).max():.3g}"
            return None
        if k == "dist":
            if ("err" in a) != ("err" in b):
                return f"outcome: implementation {_short(a)} vs model {_short(b)}"
            if "err" in a:
                return None if a["err"] == b["err"] else f"error class {a['err']} vs {b['err']}"
            return core.approx_equal(a["ok"], b["ok"]["vals"], TOL, "draws")
        if k == "em":
            if ("err" in a) != ("err" in b):
                return f"outcome: implementation {_short(a)} vs model {_short(b)}"
            if "err" in a:
                return None if a["err"] == b["err"] else f"error class {a['err']} vs {b['err']}"
            if isinstance(c["seed"], dict) or c["seed"] is None:
                return None
            return core.approx_equal(a["ok"]["vals"], b["ok"]["vals"], TOL, "draws")
        if k == "map":
            if b is None:
                return None
            A = a["first"]
            if ("err" in A) != ("err" in b):
                return f"outcome: implementation {_short(A)} vs model {_short(b)}"
            if "err" in A:
                return None if A["err"] == b["err"] else f"error class {A['err']} ({A.get('cls')}) vs {b['err']}"
            A, B = A["ok"], b["ok"]
            if len(A["spec"]) != len(B["spec"]):
                return f"component count {len(A['spec'])} vs {len(B['spec'])}"
            for i, (x, y) in enumerate(zip(A["spec"], B["spec"])):
                if x[0] != y[0]:
                    return f"component {i}: kind {x[0]} vs {y[0]}"
                if x[0] == 0 and x[1] != y[1]:
                    return f"component {i}: barrier modes {x[1]} vs {y[1]}"
                if x[0] == 1 and (x[1] != y[1] or circ_dist(x[2], y[2]) > TOL):
                    return f"component {i}: PS {x[1:]} vs {y[1:]}"
                if x[0] == 2 and (x[1:3] != y[1:3] or abs(x[3] - y[3]) > TOL or x[4] != "Rx"):
                    return f"component {i}: BS {x[1:]} vs {y[1:]}"
                if x[0] == 3 and (x[1] != y[1] or abs(x[2] - y[2]) > TOL):
                    return f"component {i}: Loss {x[1:]} vs {y[1:]}"
                if x[0] == 9:
                    return f"component {i}: unexpected {x[1]}"
            if A["hin"] != B["hin"] or A["hout"] != B["hout"]:
                return f"heralds {A['hin']}/{A['hout']} vs {B['hin']}/{B['hout']}"
            d = core.approx_equal(A["U"], B["U"], TOL, "U")
            if d:
                return "mapped.U vs the model's compiled matrix: " + d
            return None
        return None

    # ------------------------------------------------------------------ oracle
    def oracle(self, c, obs):
        k = c["kind"]
        if "timeout" in obs:
            return f"implementation did not return within {obs['timeout']} s (a loop that never ends?)"
        if k == "decomp":
            U = tomat(c["U"])
            n = c["n"]
            unitary = np.allclose(U.conj().T @ U, np.identity(n), rtol=0, atol=1e-10)
            if not unitary:
                if abs(U.conj().T @ U - np.identity(n)).max() > 1e-8 and obs.get("err") != "ValueError":
                    return f"non-unitary matrix not rejected with ValueError: {_short(obs)}"
                return None
            if "err" in obs:
                return f"reck_decomposition raised {obs['cls']} on a unitary matrix"
            o = obs["ok"]
            if not o.get("arg_kept", True):
                return "reck_decomposition modified the matrix it was given"
            exp_keys = [[j + 2 * i, j] for i in range(n - 1) for j in range(n - 1 - i)]
            if o["keys"] != exp_keys:
                return f"phase_map keys {o['keys']} != {exp_keys}"
            P = np.identity(n, dtype=complex)
            for (a, j), (th, ph) in zip(o["keys"], o["angs"]):
                P = my_bs(n, j, th, ph) @ P
            R = np.diag(np.exp(1j * np.array(o["end"]))) @ P if n else P
            if n and not (abs(R - U).max() <= TOL):
                return f"D.T_K...T_1 from the returned phases differs from U by {abs(R - U).max():.3g}"
            return None
        if k == "dist":
            d = c["d"]
            if not dist_ok(d):
                if obs.get("err") == "TypeError":
                    return None
                if "ok" in obs:
                    return (f"non-numeric parameter accepted by the constructor (no TypeError): {json.dumps(d)} "
                            f"built with {pyv(d.get('v', d.get('lo')))!r}; value() then gave {_short(obs['ok'])}")
                return f"non-numeric parameter not rejected with TypeError: {_short(obs)}"
            lo, hi = bounds(d)
            if hi < lo:
                return None if obs.get("err") == "ValueError" else f"max<min not rejected with ValueError: {_short(obs)}"
            if "err" in obs:
                return f"valid distribution raised {obs['cls']}"
            for v in obs["ok"]:
                if "ok" in v and not (lo <= v["ok"] <= hi):
                    return f"drawn value {v['ok']} outside declared bounds [{lo}, {hi}]"
            # independent replay of the stream
            if has_rng(d) and not (d["t"] == "gauss" and d["d"] < 0):
                raw = raw_stream(d, c["seed"], c["count"] * 8 + 40)
                exp, pos = [], 0
                for _ in range(c["count"]):
                    while True:
                        x = raw[pos]
                        pos += 1
                        v = d["lo"] + (d["hi"] - d["lo"]) * x if d["t"] == "tophat" else d["c"] + d["d"] * x
                        if lo <= v <= hi:
                            break
                    exp.append(v)
                got = [v.get("ok") for v in obs["ok"]]
                if len(got) != len(exp) or any(g is None or abs(g - e) > TOL for g, e in zip(got, exp)):
                    return f"draws {got[:4]} differ from the replayed stream {exp[:4]}"
            return None
        if k == "em":
            em = c["em"]
            s = c["seed"]
            bad = isinstance(s, dict) or (isinstance(s, float) and int(s) != s)
            if bad:
                return None if obs.get("err") == "TypeError" else f"bad seed not rejected with TypeError: {_short(obs)}"
            if "err" in obs:
                return f"ErrorModel raised {obs['cls']}"
            o = obs["ok"]
            for call, v in zip(c["calls"], o["vals"]):
                lo, hi = bounds(em[("bs", "loss", "phase")[call]])
                if "ok" in v and not (lo <= v["ok"] <= hi):
                    return f"drawn value {v['ok']} outside declared bounds [{lo}, {hi}]"
            if s is not None and core.approx_equal(o["vals"], o["again"], 1e-12):
                return "same seed, different call history -> different values: " + core.approx_equal(o["vals"], o["again"], 1e-12)
            # distinct distributions must not share a stream
            return None
        if k == "map":
            return self._oracle_map(c, obs)
        return None

    def _oracle_map(self, c, obs):
        em = c["em"]
        Uc = tomat(obs["Uc"])
        n = obs["n"]
        s = c["seed"]
        first = obs["first"]
        if not all(dist_ok(em[x]) for x in em):
            return None if first.get("err") == "TypeError" else f"malformed error model not rejected: {_short(first)}"
        badseed = isinstance(s, dict) or (isinstance(s, float) and int(s) != s)
        unitary = np.allclose(Uc.conj().T @ Uc, np.identity(n), rtol=0, atol=1e-10)
        if not unitary:
            return None if first.get("err") in ("ValueError", "TypeError") else f"lossy circuit not rejected: {_short(first)}"
        if not obs.get("circ_kept", True):
            return "the circuit handed to Reck.map was modified (its unitary or heralds changed)"
        dflt = obs.get("dflt")
        if dflt is not None:
            if "ok" not in dflt:
                return f"Reck().map with the default error model raised on a lossless circuit: {_short(dflt)}"
            if dflt["ok"]["dim"] != n or dflt["ok"]["dev"] is None or not (dflt["ok"]["dev"] <= 1e-8):
                return (f"a default-constructed Reck does not reproduce the unitary (dimension {dflt['ok']['dim']} vs {n}, "
                        f"max deviation {dflt['ok']['dev']}): the default error model is not the trivial one")
        if badseed:
            return None if first.get("err") == "TypeError" else f"bad seed not rejected with TypeError: {_short(first)}"
        # a draw outside [0,1] is legitimately rejected; anything else must map
        can_fail = any(not (0 <= b <= 1) for x in ("bs", "loss") for b in bounds(em[x])) or \
            any(em[x]["t"] == "gauss" and em[x]["d"] < 0 for x in em)
        if "err" in first:
            if can_fail and first["err"] == "ValueError":
                return None
            return f"Reck.map raised {first['cls']} on a unitary circuit"
        o = first["ok"]
        default = all(not has_rng(em[x]) for x in em) and em["bs"]["v"] == 0.5 and em["loss"]["v"] == 0 and em["phase"]["v"] == 0
        K = n * (n - 1) // 2
        # structure: adjacent-mode beam splitters and phase shifters (+ loss elements / barriers)
        nbs = nps = 0
        for x in o["spec"]:
            if x[0] == 2:
                nbs += 1
                if x[2] != x[1] + 1 or not (0 <= x[1] < n - 1):
                    return f"beam splitter on non-adjacent modes {x[1:3]}"
                lo, hi = bounds(em["bs"])
                if not (lo <= x[3] <= hi):
                    return f"reflectivity {x[3]} outside declared bounds [{lo}, {hi}]"
            elif x[0] == 1:
                nps += 1
                if not (0 <= x[2] <= TWO_PI):
                    return f"programmed phase {x[2]!r} outside [0, 2pi)"
                if not (0 <= x[1] < n):
                    return f"phase shifter on mode {x[1]}"
            elif x[0] == 3:
                lo, hi = bounds(em["loss"])
                if not (lo <= x[2] <= hi):
                    return f"loss {x[2]} outside declared bounds [{lo}, {hi}]"
                if default:
                    return "loss element with the default error model"
            elif x[0] == 9:
                return f"unexpected component {x[1]}"
        if nbs != 2 * K or nps != 2 * K + n:
            return f"{nbs} beam splitters / {nps} phase shifters for {n} modes"
        for name in ("bs", "loss", "phase"):
            lo, hi = bounds(em[name])
            for v in o["draws"][name]:
                if not (lo <= v <= hi):
                    return f"{name} draw {v} outside declared bounds [{lo}, {hi}]"
        if [o["hin"], o["hout"]] != obs["her0"]:
            return f"heralds {o['hin']}/{o['hout']} differ from the original {obs['her0']}"
        M = tomat(o["U"])
        if not np.all(np.isfinite(M)):
            return "mapped.U has entries that are not finite numbers"
        if default and abs(M - Uc).max() > TOL:
            return f"mapped.U differs from circuit.U by {abs(M - Uc).max():.3g}"
        if n and np.linalg.svd(M, compute_uv=False).max() > 1 + TOL:
            return f"mapped.U is not a sub-unitary: largest singular value {np.linalg.svd(M, compute_uv=False).max()!r}"
        if em["loss"]["t"] == "const" and em["loss"]["v"] == 0 and n and abs(M.conj().T @ M - np.identity(n)).max() > 1e-8:
            return "lossless error model but mapped.U is not unitary"
        if s is not None or default:
            ag = obs.get("again", {})
            if "ok" not in ag:
                return f"second mapping with the same seed failed: {_short(ag)}"
            a2 = ag["ok"]
            d = core.approx_equal([o["spec"], o["hin"], o["hout"]], [a2["spec"], a2["hin"], a2["hout"]], 1e-12)
            if d:
                return "same seed, different call history -> different mapped circuit: " + d
        return None

    # ------------------------------------------------------------------- misc
    def nontrivial(self, c, obs):
        k = c["kind"]
        if "timeout" in obs:
            return False
        if k == "decomp":
            return c["n"] >= 2
        if k == "map":
            return obs["n"] >= 2
        if k == "dist":
            return dist_ok(c["d"]) and has_rng(c["d"])
        return any(has_rng(c["em"][x]) for x in c["em"])

    def stats(self, cases, recs):
        from collections import Counter
        kinds = Counter(c["kind"] for c in cases)
        cats = Counter(f"{c['kind']}:{c.get('cat')}" for c in cases if c["kind"] in ("decomp", "map"))
        sizes = Counter(c.get("n") for c in cases if c["kind"] in ("decomp", "map"))
        small = twopi = nmaps = errs = 0
        maxoff = 0.0
        for r in recs:
            c, m, io = r["case"], r["model"], r["impl"]
            if c["kind"] == "decomp" and m and "ok" in m:
                small += sum(m["ok"]["small"])
                D = np.array(tomat(m["ok"]["D"]))
                if D.size:
                    maxoff = max(maxoff, float(abs(D - np.diag(np.diag(D))).max()))
            if c["kind"] == "map" and isinstance(io, dict) and "ok" in io.get("first", {}):
                nmaps += 1
                if any(x[0] == 1 and x[2] == TWO_PI for x in io["first"]["ok"]["spec"]):
                    twopi += 1
            if isinstance(io, dict) and ("err" in io or "err" in io.get("first", {})):
                errs += 1
        return {"kinds": dict(kinds), "categories": dict(cats), "sizes": {str(k): v for k, v in sizes.items()},
                "steps_in_zero_branch(model)": small, "mapped_circuits": nmaps,
                "mapped_circuits_with_a_phase_equal_to_float_2pi": twopi,
                "max_offdiag_of_exact_nulled_matrix": maxoff, "cases_with_error_outcome": errs}

    def signature(self, c, rec):
        # Constant([0.5]) / Constant((0.5,)) / Constant([]) is accepted: dists/utils.is_number treats a
        # list/tuple argument as "several values to check"; the object then returns the sequence from value()
        if c["kind"] == "dist" and c["d"]["t"] == "const" and isinstance(c["d"]["v"], dict) \
                and c["d"]["v"].get("bad") == "list" and isinstance(rec.get("impl"), dict) and "ok" in rec["impl"]:
            return "constant-accepts-sequence"
        return None

    def shrink(self, c):
        if c["kind"] == "em" and len(c["calls"]) > 1:
            for i in range(len(c["calls"])):
                d = copy.deepcopy(c)
                del d["calls"][i]
                yield d
        if c["kind"] == "dist" and c["count"] > 1:
            d = copy.deepcopy(c)
            d["count"] -= 1
            yield d
        if c["kind"] == "map":
            if c["her"]:
                d = copy.deepcopy(c)
                d["her"] = d["her"][:-1]
                yield d
            if c["em"] != DEFAULT_EM:
                for x in ("bs", "loss", "phase"):
                    if c["em"][x] != DEFAULT_EM[x]:
                        d = copy.deepcopy(c)
                        d["em"][x] = copy.deepcopy(DEFAULT_EM[x])
                        yield d


def _straddle_ok(c):
    return False


def _key(c):
    return json.dumps({k: v for k, v in c.items() if not k.startswith("_")}, sort_keys=True, default=str)


def _short(o):
    s = json.dumps(o, default=str)
    return s if len(s) < 160 else s[:160] + "..."


PROP = C14()

if __name__ == "__main__":
    sys.exit(core.main(PROP))
