"""C04 — Sampler distribution is normalised, exact and the same for both backends."""
from __future__ import annotations

import copy
import json
import itertools
import sys
from collections import Counter

import numpy as np

import core
import circgen as cg
import fockgen as fg
from core import cb, clist, cn, cz

import lightworks as lw
from lightworks import emulator

EPS = 1e-9
TOL = 1e-10          # float accuracy of a probability (values are sums of < 100 terms of size <= 1)


def dict_diff(a, b, tol):
    keys = set(a) | set(b)
    for k in sorted(keys):
        if abs(a.get(k, 0.0) - b.get(k, 0.0)) > tol:
            return f"state {list(k)}: {a.get(k, 0.0)!r} vs {b.get(k, 0.0)!r}"
    return None


def reference_distribution(U, n, full_in):
    """Independent reference: for every pattern on the n circuit modes, the sum over all
    occupations of the loss modes of |permanent amplitude|^2.
    Returns (exact marginal, marginal with every full state of probability <= EPS dropped,
    number of full states per pattern, all full-state probabilities)."""
    tot = sum(full_in)
    dim = U.shape[0]
    dist, trunc, nlo = {}, {}, {}
    allp = []
    for fo in fg.fock_states(dim, tot):
        p = float(abs(fg.amplitude_ref(U, full_in, fo)) ** 2)
        allp.append(p)
        key = tuple(fo[:n])
        dist[key] = dist.get(key, 0.0) + p
        nlo[key] = nlo.get(key, 0) + 1
        if p > EPS:
            trunc[key] = trunc.get(key, 0.0) + p
    return dist, trunc, nlo, allp


# rational Givens rotations with a tiny off-diagonal amplitude s = 2ab/(a^2+b^2):
# s^2 ~ 4e-10 (a state just BELOW the 1e-9 threshold) and s^2 ~ 2e-9 (just ABOVE)
NEAR = [(100000, 1), (44721, 1)]


def near_threshold_case(rng):
    """A 3-mode circuit: tiny-angle beam splitter on modes 0,1 (exact rational unitary), then two loss
    elements in series on one mode.  A photon reaches mode 1 with probability s^2 ~ 4e-10 or 2e-9, a second
    photon can be lost in two different places, so that a pattern is made of several full states that are
    individually below the threshold while their sum is above it (threshold must be applied per full state)."""
    a, b = rng.choice(NEAR)
    h = a * a + b * b
    c, sn = [a * a - b * b, h], [2 * a * b, h]
    z, one = [0, 1, 0, 1], [1, 1, 0, 1]
    V = [[c + [0, 1], [-sn[0], sn[1], 0, 1], z],
         [sn + [0, 1], c + [0, 1], z],
         [z, z, one]]
    lm = rng.choice([2, 2, 0])
    prog = [["unitary", 0, 3, V], ["loss", 0, lm, rng.choice([2, 3, 4, 6])], ["loss", 0, lm, rng.choice([2, 3, 6, 8])]]
    if rng.random() < 0.3:
        prog.append(["loss", 0, 1, rng.choice([2, 4])])
    inp = rng.choice([[1, 0, 1], [1, 0, 1], [1, 0, 0], [2, 0, 0], [1, 1, 0], [1, 0, 2], [2, 0, 1]])
    return dict(kind="dist", prog=prog, cid=0, input=inp)


class C04:
    ID = "C04"
    RULE = ("random circuit trees (0-4 loss elements anywhere incl. inside heralded sub-circuits, heralds with 0-2 photons, lossless too) x "
            "inputs (vacuum, single, bunched, <= 3 photons) x both backends, ideal source; every 10th case is a deliberate near-threshold "
            "circuit (exact rational tiny-angle beam splitter, full states of probability 4e-10 / 2e-9 / sums of sub-threshold states above "
            "the threshold, two loss elements in series); the whole dictionary is compared with the model (1e-10) and "
            "with an independent permanent-based reference (marginalised over loss modes, per-state truncation). Cases with a full-state "
            "probability within 0.1% of the 1e-9 threshold are skipped. Non-trivial = lossy circuit with >= 2 photons or heralded circuit; distinct = distinct JSON")
    COQ_TARGETS = ["theories/Exec/RunFock.vo"]
    CHUNK = 20
    TRUSTED = ["thewalrus.perm is the mathematical permanent (the oracle recomputes it by direct expansion)",
               "the float-dependent branch total_prob < 1 changes a result by <= 1e-15 after the F1 repair and is inside the tolerance"]
    ASSUMPTIONS = ["settings.sampler_probability_threshold = 1e-9 (default)"]

    def __init__(self):
        self._cache = {}

    def generate(self, rng, tier):
        n = 300 if tier == "quick" else 15000
        cases = []
        for i in range(n):
            if i % 10 == 7:
                cases.append(near_threshold_case(rng))
                continue
            prog, cid, nin, hp = fg.gen_circuit(rng, tier, lossy=[True, True, None, False][i % 4])
            photons = min(rng.choice([0, 1, 2, 2, 3]), 4 - hp)
            inp = fg.gen_state(rng, nin, photons)
            if i % 9 == 8:
                inp = inp + [0]      # wrong length -> ValueError
            cases.append(dict(kind="dist", prog=prog, cid=cid, input=inp, reuse=(i % 3 == 2)))
        return cases

    def _circuit(self, c):
        _, pool = cg.run_impl(c["prog"])
        return pool[c["cid"]]

    def _dist(self, circ, inp, backend, prev=None):
        # a default-constructed Sampler whose default Source is tuned in place and which is thrown away: the next
        # default-constructed Sampler must still have its own ideal source
        try:
            d0 = emulator.Sampler(circ, lw.State(list(inp)))
            d0.source.brightness = 0.6
            d0.source.purity = 0.9
        except Exception:  # noqa: BLE001
            pass
        if prev is not None:
            # reuse: the Sampler object first serves another configuration (same optics, different herald
            # photon numbers), is read, and is then re-pointed at the case's circuit - the distribution must
            # be the one of the configuration it has NOW
            s = emulator.Sampler(prev, lw.State(list(inp)), backend=backend)
            s.probability_distribution  # noqa: B018
            s.circuit = circ
            s.input_state = lw.State(list(inp))
        else:
            s = emulator.Sampler(circ, lw.State(list(inp)), backend=backend)
        return {tuple(k.s): float(v) for k, v in s.probability_distribution.items()}

    def _prev_circuit(self, c):
        if not c.get("reuse"):
            return None
        prog = copy.deepcopy(c["prog"])
        changed = False
        for o in prog:
            if o[0] == "herald":
                o[2] = 1 - o[2] if o[2] in (0, 1) else o[2] - 1
                changed = True
        if not changed:
            return None
        try:
            _, pool = cg.run_impl(prog)
            prev = pool[c["cid"]]
            prev.U_full  # noqa: B018
            return prev
        except Exception:  # noqa: BLE001
            return None

    def impl(self, c):
        circ = self._circuit(c)
        prev = self._prev_circuit(c) if len(c["input"]) == circ.input_modes else None
        out = {}
        for b in ("permanent", "slos"):
            r = core.guarded(lambda b=b: self._dist(circ, c["input"], b, prev))
            if "ok" in r:
                r = {"ok": sorted([list(k), v] for k, v in r["ok"].items())}
            out[b] = r
        return out

    def coq_header(self):
        return cg.COQ_HEADER + "From LW Require Import Model.Fock Exec.RunFock.\n"

    def coq_expr(self, c):
        prog = clist("(" + cg.op_to_coq(o) + ")" for o in c["prog"])
        inp = clist(cz(x) for x in c["input"])
        return f"SL (run_dist {prog} {cn(c['cid'])} false {inp} :: run_dist {prog} {cn(c['cid'])} true {inp} :: nil)"

    def decode(self, c, sx):
        out = {}
        for b, r in zip(("permanent", "slos"), sx):
            out[b] = core.decode_res(r, lambda d: sorted([k, v / 1e12] for k, v in d))
        return out

    def _reference(self, c):
        """(circ, U, n, full_in, exact marginal, truncated marginal, #full states per pattern, all full-state
        probabilities, near) for a well-formed case, None otherwise; cached per case."""
        key = json.dumps(c, sort_keys=True)
        if key in self._cache:
            return self._cache[key]
        res = None
        try:
            circ = self._circuit(c)
            U = circ.U_full
            if len(c["input"]) == circ.input_modes and all(isinstance(x, int) and x >= 0 for x in c["input"]):
                n = circ.n_modes
                full_in = fg.full_state(c["input"], circ.heralds["input"], U.shape[0] - n)
                ref, trunc, nlo, allp = reference_distribution(U, n, full_in)
                # too close to the truncation threshold to decide p > 1e-9 in floats
                near = any(abs(p - EPS) < 1e-3 * EPS for p in allp)
                res = (circ, U, n, full_in, ref, trunc, nlo, allp, near)
        except Exception:  # noqa: BLE001
            res = None
        if len(self._cache) > 20000:
            self._cache.clear()
        self._cache[key] = res
        return res

    def compare(self, c, a, b):
        r = self._reference(c)
        if r is not None and r[8]:
            return None
        for bk in ("permanent", "slos"):
            x, y = a[bk], b[bk]
            if ("ok" in x) != ("ok" in y):
                return f"{bk}: outcome {list(x)[0]}:{x.get('err')} vs model {list(y)[0]}:{y.get('err')}"
            if "err" in x:
                if x["err"] != y["err"]:
                    return f"{bk}: error class {x['err']} vs {y['err']}"
                continue
            # the exact model applies the same per-state truncation, so the dictionaries agree to float accuracy
            # (the model prints floor(x * 1e12)); a pattern kept by one side and dropped by the other shows up
            d = dict_diff({tuple(k): v for k, v in x["ok"]}, {tuple(k): v for k, v in y["ok"]}, TOL)
            if d:
                return f"{bk}: {d}"
        return None

    def oracle(self, c, obs):
        circ = self._circuit(c)
        try:
            U = circ.U_full
        except Exception:  # noqa: BLE001
            return None
        if len(c["input"]) != circ.input_modes:
            if any("ok" in obs[b] for b in obs):
                return "input of the wrong length was accepted"
            return None
        r = self._reference(c)
        if r is None:
            return None
        _, U, n, full_in, ref, trunc, nlo, allp, near = r
        if near:
            return None          # too close to the truncation threshold to compare floats
        injected = sum(full_in)
        nstates = len(allp)
        vac = tuple([0] * n)
        dists = {}
        for b in ("permanent", "slos"):
            if "ok" not in obs[b]:
                return f"{b} backend raised {obs[b]['err']} on a valid request"
            d = {tuple(k): v for k, v in obs[b]["ok"]}
            dists[b] = d
            if any(v < 0 for v in d.values()):
                return f"{b}: negative probability"
            tot = sum(d.values())
            # sums to one up to the documented per-state truncation
            if not (1 - EPS * nstates - TOL <= tot <= 1 + TOL):
                return f"{b}: distribution sums to {tot!r} (allowed truncation {EPS * nstates:.2g})"
            if any(sum(k) > injected for k in d):
                return f"{b}: a pattern holds more photons than were injected"
            if any(len(k) != n for k in d):
                return f"{b}: a pattern has the wrong number of modes"
            for k in set(d) | set(ref):
                got, exact = d.get(k, 0.0), ref.get(k, 0.0)
                if k == vac:
                    # the vacuum pattern also receives the truncated mass (at most eps per full state)
                    if not (exact - EPS * nlo.get(k, 0) - TOL <= got <= exact + EPS * nstates + TOL):
                        return f"{b}: P(vacuum) = {got!r}, reference {exact!r}"
                    continue
                # each pattern = its total probability over all ways the other photons were lost, every
                # full state of probability <= 1e-9 dropped (per-STATE truncation): never above the exact
                # marginal, at most eps per lost-photon configuration below it, and equal to the truncated sum
                if got > exact + TOL or got < exact - EPS * nlo.get(k, 0) - TOL:
                    return (f"{b}: P{list(k)} = {got!r}, reference (sum over lost-photon configurations) {exact!r}, "
                            f"{nlo.get(k, 0)} configurations")
                if abs(got - trunc.get(k, 0.0)) > TOL:
                    return (f"{b}: P{list(k)} = {got!r}, reference with states <= 1e-9 dropped individually "
                            f"{trunc.get(k, 0.0)!r} (exact marginal {exact!r})")
        # same truncation rule in both back ends: they agree to float accuracy on every non-vacuum pattern,
        # and within the truncated mass on the vacuum pattern
        a, bb = dists["permanent"], dists["slos"]
        for k in sorted(set(a) | set(bb)):
            tol = TOL if k != vac else 2 * EPS * nstates + TOL
            if abs(a.get(k, 0.0) - bb.get(k, 0.0)) > tol:
                return f"backends disagree: state {list(k)}: {a.get(k, 0.0)!r} vs {bb.get(k, 0.0)!r}"
        return None

    def nontrivial(self, c, obs):
        lossy = any(o[0] == "loss" or (o[0] == "bs" and o[5] is not None) or (o[0] == "ps" and o[4] is not None) for o in c["prog"])
        her = any(o[0] == "herald" for o in c["prog"])
        return (lossy and sum(c["input"]) >= 2) or her

    def stats(self, cases, recs):
        ph = Counter(sum(c["input"]) for c in cases)
        lossy = sum(1 for c in cases if any(o[0] == "loss" for o in c["prog"]))
        sizes = Counter(len(r["impl"]["slos"].get("ok", [])) for r in recs if isinstance(r["impl"], dict))
        return {"input_photons": dict(ph), "programs_with_loss_calls": lossy, "distribution_sizes": dict(sizes)}

    def shrink(self, c):
        for i in range(len(c["prog"]) - 1, 0, -1):
            if c["prog"][i][0] in ("bs", "ps", "loss", "barrier", "swaps"):
                d = copy.deepcopy(c)
                del d["prog"][i]
                yield d

    def signature(self, c, rec):
        return None


PROP = C04()

if __name__ == "__main__":
    sys.exit(core.main(PROP))
