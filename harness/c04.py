"""C04 — Sampler distribution is normalised, exact and the same for both backends."""
from __future__ import annotations

import copy
import itertools
import sys
from collections import Counter

import numpy as np

import core
import circgen as cg
import fockgen as fg
from core import cb, clist, cn, cz

import lightworks as lw
from lightworks import emulator

EPS = 1e-9


def dict_diff(a, b, tol):
    keys = set(a) | set(b)
    for k in sorted(keys):
        if abs(a.get(k, 0.0) - b.get(k, 0.0)) > tol:
            return f"state {list(k)}: {a.get(k, 0.0)!r} vs {b.get(k, 0.0)!r}"
    return None


def reference_distribution(U, n, full_in):
    """Independent reference: for every pattern on the n circuit modes, the sum over all
    occupations of the loss modes of |permanent amplitude|^2. Returns (dist, all full-state probs)."""
    tot = sum(full_in)
    dim = U.shape[0]
    dist = {}
    allp = []
    for k in range(tot + 1):
        pass
    for fo in fg.fock_states(dim, tot):
        p = abs(fg.amplitude_ref(U, full_in, fo)) ** 2
        allp.append(p)
        key = tuple(fo[:n])
        dist[key] = dist.get(key, 0.0) + p
    return dist, allp


class C04:
    ID = "C04"
    RULE = ("random circuit trees (0-4 loss elements anywhere incl. inside heralded sub-circuits, heralds with 0-2 photons, lossless too) x "
            "inputs (vacuum, single, bunched, <= 3 photons) x both backends, ideal source; the whole dictionary is compared with the model and "
            "with an independent permanent-based reference (marginalised over loss modes). Cases with a full-state probability within 0.1% of the "
            "1e-9 threshold are skipped. Non-trivial = lossy circuit with >= 2 photons or heralded circuit; distinct = distinct JSON")
    COQ_TARGETS = ["theories/Exec/RunFock.vo"]
    CHUNK = 20
    TRUSTED = ["thewalrus.perm is the mathematical permanent (the oracle recomputes it by direct expansion)",
               "the float-dependent branch total_prob < 1 changes a result by <= 1e-15 after the F1 repair and is inside the tolerance"]
    ASSUMPTIONS = ["settings.sampler_probability_threshold = 1e-9 (default)"]

    def generate(self, rng, tier):
        n = 110 if tier == "quick" else 3000
        cases = []
        for i in range(n):
            prog, cid, nin, hp = fg.gen_circuit(rng, tier, lossy=[True, True, None, False][i % 4])
            photons = min(rng.choice([0, 1, 2, 2, 3]), 4 - hp)
            inp = fg.gen_state(rng, nin, photons)
            if i % 9 == 8:
                inp = inp + [0]      # wrong length -> ValueError
            cases.append(dict(kind="dist", prog=prog, cid=cid, input=inp))
        return cases

    def _circuit(self, c):
        _, pool = cg.run_impl(c["prog"])
        return pool[c["cid"]]

    def _dist(self, circ, inp, backend):
        s = emulator.Sampler(circ, lw.State(list(inp)), backend=backend)
        return {tuple(k.s): float(v) for k, v in s.probability_distribution.items()}

    def impl(self, c):
        circ = self._circuit(c)
        out = {}
        for b in ("permanent", "slos"):
            r = core.guarded(lambda b=b: self._dist(circ, c["input"], b))
            if "ok" in r:
                r = {"ok": sorted([list(k), v] for k, v in r["ok"].items())}
            out[b] = r
        return out

    def coq_header(self):
        return cg.COQ_HEADER + "From LW Require Import Model.Fock Exec.RunFock.\n"

    def coq_expr(self, c):
        prog = clist("(" + cg.op_to_coq(o) + ")" for o in c["prog"])
        inp = clist(cz(x) for x in c["input"])
        return f"SL (run_dist {prog} {cn(c['cid'])} false {inp} :: run_dist {prog} {cn(c['cid'])} true {inp} :: nil)"

    def decode(self, c, sx):
        out = {}
        for b, r in zip(("permanent", "slos"), sx):
            out[b] = core.decode_res(r, lambda d: sorted([k, v / 1e12] for k, v in d))
        return out

    def compare(self, c, a, b):
        for bk in ("permanent", "slos"):
            x, y = a[bk], b[bk]
            if ("ok" in x) != ("ok" in y):
                return f"{bk}: outcome {list(x)[0]}:{x.get('err')} vs model {list(y)[0]}:{y.get('err')}"
            if "err" in x:
                if x["err"] != y["err"]:
                    return f"{bk}: error class {x['err']} vs {y['err']}"
                continue
            d = dict_diff({tuple(k): v for k, v in x["ok"]}, {tuple(k): v for k, v in y["ok"]}, 2e-9)
            if d:
                return f"{bk}: {d}"
        return None

    def oracle(self, c, obs):
        circ = self._circuit(c)
        try:
            U = circ.U_full
        except Exception:  # noqa: BLE001
            return None
        n = circ.n_modes
        if len(c["input"]) != circ.input_modes:
            if any("ok" in obs[b] for b in obs):
                return "input of the wrong length was accepted"
            return None
        full_in = fg.full_state(c["input"], circ.heralds["input"], U.shape[0] - n)
        injected = sum(full_in)
        ref, allp = reference_distribution(U, n, full_in)
        if any(abs(p - EPS) < 1e-3 * EPS for p in allp):
            return None          # too close to the truncation threshold to compare floats
        nstates = len(allp)
        dists = {}
        for b in ("permanent", "slos"):
            if "ok" not in obs[b]:
                return f"{b} backend raised {obs[b]['err']} on a valid request"
            d = {tuple(k): v for k, v in obs[b]["ok"]}
            dists[b] = d
            if any(v < 0 for v in d.values()):
                return f"{b}: negative probability"
            tot = sum(d.values())
            if not (1 - EPS * nstates - 1e-9 <= tot <= 1 + 1e-9):
                return f"{b}: distribution sums to {tot!r} (allowed truncation {EPS * nstates:.2g})"
            if any(sum(k) > injected for k in d):
                return f"{b}: a pattern holds more photons than were injected"
            if any(len(k) != n for k in d):
                return f"{b}: a pattern has the wrong number of modes"
            # each pattern = its total probability over all ways the other photons were lost
            for k in set(d) | set(ref):
                # truncation may remove up to eps per full state contributing to the pattern
                if abs(d.get(k, 0.0) - ref.get(k, 0.0)) > EPS * nstates + 1e-9:
                    return f"{b}: P{list(k)} = {d.get(k, 0.0)!r}, reference (sum over lost-photon configurations) {ref.get(k, 0.0)!r}"
        dd = dict_diff(dists["permanent"], dists["slos"], 2 * EPS * nstates + 1e-9)
        if dd:
            return f"backends disagree: {dd}"
        return None

    def nontrivial(self, c, obs):
        lossy = any(o[0] == "loss" or (o[0] == "bs" and o[5] is not None) or (o[0] == "ps" and o[4] is not None) for o in c["prog"])
        her = any(o[0] == "herald" for o in c["prog"])
        return (lossy and sum(c["input"]) >= 2) or her

    def stats(self, cases, recs):
        ph = Counter(sum(c["input"]) for c in cases)
        lossy = sum(1 for c in cases if any(o[0] == "loss" for o in c["prog"]))
        sizes = Counter(len(r["impl"]["slos"].get("ok", [])) for r in recs if isinstance(r["impl"], dict))
        return {"input_photons": dict(ph), "programs_with_loss_calls": lossy, "distribution_sizes": dict(sizes)}

    def shrink(self, c):
        for i in range(len(c["prog"]) - 1, 0, -1):
            if c["prog"][i][0] in ("bs", "ps", "loss", "barrier", "swaps"):
                d = copy.deepcopy(c)
                del d["prog"][i]
                yield d

    def signature(self, c, rec):
        return None


PROP = C04()

if __name__ == "__main__":
    sys.exit(core.main(PROP))
