"""C04 — Sampler distribution is normalised, exact and the same for both backends."""
from __future__ import annotations

import copy
import json
import itertools
import sys
from collections import Counter

import numpy as np

import core
import circgen as cg
import fockgen as fg
from core import cb, clist, cn, cz

import lightworks as lw
from lightworks import emulator

EPS = 1e-9          # default settings.sampler_probability_threshold
THRS = {"d": None, "0": (0, 1), "6": (1, 10**6), "3": (1, 10**3)}     # other values of the setting: exact rationals
TOL = 1e-10          # float accuracy of a probability (values are sums of < 100 terms of size <= 1)


class SharedDefault(Exception):
    pass


def dict_diff(a, b, tol):
    keys = set(a) | set(b)
    for k in sorted(keys):
        if abs(a.get(k, 0.0) - b.get(k, 0.0)) > tol:
            return f"state {list(k)}: {a.get(k, 0.0)!r} vs {b.get(k, 0.0)!r}"
    return None


def reference_distribution(U, n, full_in, eps=EPS):
    """Independent reference: for every pattern on the n circuit modes, the sum over all
    occupations of the loss modes of |permanent amplitude|^2.
    Returns (exact marginal, marginal with every full state of probability <= EPS dropped,
    number of full states per pattern, all full-state probabilities)."""
    tot = sum(full_in)
    dim = U.shape[0]
    dist, trunc, nlo = {}, {}, {}
    allp = []
    for fo in fg.fock_states(dim, tot):
        p = float(abs(fg.amplitude_ref(U, full_in, fo)) ** 2)
        allp.append(p)
        key = tuple(fo[:n])
        dist[key] = dist.get(key, 0.0) + p
        nlo[key] = nlo.get(key, 0) + 1
        if p > eps:
            trunc[key] = trunc.get(key, 0.0) + p
    return dist, trunc, nlo, allp


# rational Givens rotations with a tiny off-diagonal amplitude s = 2ab/(a^2+b^2):
# s^2 ~ 4e-10 (a state just BELOW the 1e-9 threshold) and s^2 ~ 2e-9 (just ABOVE)
NEAR = [(100000, 1), (44721, 1)]


def near_threshold_case(rng):
    """A 3-mode circuit: tiny-angle beam splitter on modes 0,1 (exact rational unitary), then two loss
    elements in series on one mode.  A photon reaches mode 1 with probability s^2 ~ 4e-10 or 2e-9, a second
    photon can be lost in two different places, so that a pattern is made of several full states that are
    individually below the threshold while their sum is above it (threshold must be applied per full state)."""
    a, b = rng.choice(NEAR)
    h = a * a + b * b
    c, sn = [a * a - b * b, h], [2 * a * b, h]
    z, one = [0, 1, 0, 1], [1, 1, 0, 1]
    V = [[c + [0, 1], [-sn[0], sn[1], 0, 1], z],
         [sn + [0, 1], c + [0, 1], z],
         [z, z, one]]
    lm = rng.choice([2, 2, 0])
    prog = [["unitary", 0, 3, V], ["loss", 0, lm, rng.choice([2, 3, 4, 6])], ["loss", 0, lm, rng.choice([2, 3, 6, 8])]]
    if rng.random() < 0.3:
        prog.append(["loss", 0, 1, rng.choice([2, 4])])
    inp = rng.choice([[1, 0, 1], [1, 0, 1], [1, 0, 0], [2, 0, 0], [1, 1, 0], [1, 0, 2], [2, 0, 1]])
    return dict(kind="dist", prog=prog, cid=0, input=inp)


class C04:
    ID = "C04"
    RULE = ("random circuit trees (0-4 loss elements anywhere incl. inside heralded sub-circuits, heralds with 0-2 photons, lossless too) x "
            "inputs (vacuum, single, bunched, <= 3 photons) x both backends, ideal source; every 10th case is a deliberate near-threshold "
            "circuit (exact rational tiny-angle beam splitter, full states of probability 4e-10 / 2e-9 / sums of sub-threshold states above "
            "the threshold, two loss elements in series); single-mode circuits; settings.sampler_probability_threshold also 0 / 1e-6 / 1e-3; "
            "the same request through Backend.full_probability_distribution; histories on the one Sampler that is read (created before "
            "the circuit was completed, re-pointed from a twin with other herald photons, failing reads on a circuit the input does not fit, "
            "read twice, backend switched with the setter), explicit ideal Source/Detector objects, Backend objects; the whole dictionary is compared with the model (1e-10) and "
            "with an independent permanent-based reference (marginalised over loss modes, per-state truncation). Cases with a full-state "
            "probability within 0.1% of the 1e-9 threshold are skipped. Non-trivial = lossy circuit with >= 2 photons or heralded circuit; distinct = distinct JSON")
    COQ_TARGETS = ["theories/Exec/RunFock.vo"]
    CHUNK = 20
    TRUSTED = ["thewalrus.perm is the mathematical permanent (the oracle recomputes it by direct expansion)",
               "the float-dependent branch total_prob < 1 changes a result by <= 1e-15 after the F1 repair and is inside the tolerance"]
    ASSUMPTIONS = ["settings.sampler_probability_threshold = 1e-9 (default) unless the case sets it (restored after the case); "
                   "a Sampler is only read after the setting has its final value (the setting is not part of the Sampler's snapshot)"]

    def __init__(self):
        self._cache = {}

    def generate(self, rng, tier):
        n = 300 if tier == "quick" else 15000
        cases = []
        for i in range(n):
            if i % 10 == 7:
                c = near_threshold_case(rng)
                c["hist"] = [None, "twice", "switch"][(i // 10) % 3]
                cases.append(c)
                continue
            prog, cid, nin, hp = fg.gen_circuit(rng, tier, lossy=[True, True, None, False][i % 4])
            photons = min(rng.choice([0, 1, 2, 2, 3]), 4 - hp)
            inp = fg.gen_state(rng, nin, photons)
            if i % 9 == 8:
                inp = inp + [0]      # wrong length -> ValueError
            # histories on the ONE Sampler object that is read (the observed read is always the last one):
            #   reuse  - first serves the same optics with other herald photon numbers, is read, is re-pointed
            #   early  - created (and read) as soon as the circuit object exists; the rest of the program then edits
            #            the circuit in place, the input is set with the input_state setter
            #   exc    - re-pointed at a circuit the input does not fit, two failing reads, pointed back
            #   twice  - read twice; switch - read with the other backend first, backend changed with the setter
            hist = [None, "early", "reuse", "exc", "twice", "reuse", "switch", "early", "reuse"][i % 9]
            case = dict(kind="dist", prog=prog, cid=cid, input=inp, reuse=(hist == "reuse"), hist=hist)
            # API forms: explicit ideal Source / Detector objects, a Backend object instead of its name
            case["src_obj"] = rng.random() < 0.3
            case["bk_obj"] = rng.random() < 0.3
            # other values of settings.sampler_probability_threshold (0 = nothing is dropped)
            if i % 6 == 4:
                case["thr"] = rng.choice(["0", "0", "6", "3"])
            cases.append(case)
        # single-mode circuits (a generated tree never ends in one): phase and loss on one mode, 0..3 photons
        for j in range(10 if tier == "quick" else 300):
            prog = [["new", 0, 1]]
            for _ in range(rng.randint(0, 3)):
                if rng.random() < 0.4:
                    prog.append(["ps", 0, 0, rng.randrange(len(cg.PHV)), cg.gen_value_loss(rng, 0.5)])
                else:
                    prog.append(["loss", 0, 0, cg.gen_value_loss(rng, 1.0)])
            cases.append(dict(kind="dist", prog=prog, cid=0, input=[rng.choice([0, 1, 2, 3])], reuse=False,
                              hist=[None, "early", "exc", "twice", "switch"][j % 5], src_obj=j % 2 == 0, bk_obj=j % 3 == 0))
        return cases

    def _circuit(self, c):
        _, pool = cg.run_impl(c["prog"])
        return pool[c["cid"]]

    def _new_sampler(self, c, circ, state, backend):
        kw = {}
        if c.get("src_obj"):
            kw = dict(source=emulator.Source(), detector=emulator.Detector())
        return emulator.Sampler(circ, state, backend=emulator.Backend(backend) if c.get("bk_obj") else backend, **kw)

    def _dist(self, c, circ, inp, backend, prev=None, early=None, pre=None):
        # a default-constructed Sampler whose default Source is tuned in place and which is thrown away: the next
        # default-constructed Sampler must still have its own ideal source
        try:
            d0 = emulator.Sampler(circ, lw.State(list(inp)))
            d0.source.brightness = 0.6
            d0.source.purity = 0.9
            chk = emulator.Sampler(circ, lw.State(list(inp))).source
            leaked = (chk.brightness, chk.purity, chk.indistinguishability) != (1, 1, 1)
            if leaked:
                # put the values back (an impure source makes every later case exponentially slow) and report
                d0.source.brightness = 1
                d0.source.purity = 1
        except Exception:  # noqa: BLE001
            leaked = False
        if leaked:
            raise SharedDefault("a Sampler created without a source does not have the documented perfect source: "
                                "the Source of an earlier, discarded Sampler was tuned in place")
        hist = c.get("hist") or ("reuse" if c.get("reuse") else None)
        other = "slos" if backend == "permanent" else "permanent"
        if early is not None:
            s = early
            if list(s.input_state) != list(inp) or len(inp) != circ.input_modes:
                s.input_state = lw.State(list(inp))
        elif prev is not None:
            # reuse: the Sampler object first serves another configuration (same optics, different herald
            # photon numbers), is read, and is then re-pointed at the case's circuit - the distribution must
            # be the one of the configuration it has NOW
            s = self._new_sampler(c, prev, lw.State(list(inp)), backend)
            s.probability_distribution  # noqa: B018
            s.circuit = circ
            s.input_state = lw.State(list(inp))
        elif hist == "switch":
            s = self._new_sampler(c, circ, lw.State(list(inp)), other)
            s.probability_distribution  # noqa: B018
            s.backend = emulator.Backend(backend) if c.get("bk_obj") else backend
        else:
            s = self._new_sampler(c, circ, lw.State(list(inp)), backend)
        if hist == "exc":
            try:
                s.probability_distribution  # noqa: B018   (a distribution exists before the configuration is broken)
            except Exception:  # noqa: BLE001
                pass
            # a circuit the input does not fit; it carries a 50:50 beam splitter so that its U_full (irrational entries)
            # cannot coincide with the U_full of a generated circuit (rational entries) of another size: the Sampler's
            # snapshot does not contain the mode count, a circuit with 2 modes + 1 loss mode of loss 0 and an empty
            # 3-mode circuit are the same configuration to it (reported to the lead; C11 lists it as an assumption)
            bad = lw.Circuit(circ.input_modes + 1)
            bad.bs(0)
            try:
                s.circuit = bad
                repointed = True
            except Exception:  # noqa: BLE001   (an implementation may refuse the assignment itself)
                repointed = False
            for _ in range(2 if repointed else 0):
                try:
                    d = s.probability_distribution
                    pre.append(["ok", sorted({len(k) for k in d})])
                except Exception as e:  # noqa: BLE001
                    pre.append([type(e).__name__])
            s.circuit = circ
        if hist == "twice":
            first = {tuple(k.s): float(v) for k, v in s.probability_distribution.items()}
            second = {tuple(k.s): float(v) for k, v in s.probability_distribution.items()}
            if first != second:
                pre.append(["second read differs from the first"])
            return second
        return {tuple(k.s): float(v) for k, v in s.probability_distribution.items()}

    def _prev_circuit(self, c):
        if not c.get("reuse"):
            return None
        prog = copy.deepcopy(c["prog"])
        changed = False
        for o in prog:
            if o[0] == "herald":
                o[2] = 1 - o[2] if o[2] in (0, 1) else o[2] - 1
                changed = True
        if not changed:
            return None
        try:
            _, pool = cg.run_impl(prog)
            prev = pool[c["cid"]]
            prev.U_full  # noqa: B018
            return prev
        except Exception:  # noqa: BLE001
            return None

    def _thr(self, c):
        t = THRS[c.get("thr", "d")]
        return EPS if t is None else t[0] / t[1]

    def impl(self, c):
        old = lw.settings.sampler_probability_threshold
        try:
            if c.get("thr"):
                lw.settings.sampler_probability_threshold = self._thr(c)
            return self._impl(c)
        finally:
            lw.settings.sampler_probability_threshold = old

    def _impl(self, c):
        early = {}

        def on_step(pool, op, out, before):
            if c.get("hist") == "early" and not early and op[0] in ("new", "unitary", "copy", "plus") and op[1] == c["cid"] \
                    and c["cid"] in pool:
                for b in ("permanent", "slos"):
                    try:
                        m = pool[c["cid"]].input_modes
                        fits = len(c["input"]) == m and all(isinstance(x, int) and x >= 0 for x in c["input"])
                        s = self._new_sampler(c, pool[c["cid"]], lw.State(list(c["input"]) if fits else [1] + [0] * (m - 1)), b)
                        s.probability_distribution  # noqa: B018
                        early[b] = s
                    except Exception:  # noqa: BLE001
                        pass

        _, pool = cg.run_impl(c["prog"], on_step=on_step, want=lambda op: [])
        circ = pool[c["cid"]]
        prev = self._prev_circuit(c) if len(c["input"]) == circ.input_modes else None
        out = {}
        for b in ("permanent", "slos"):
            pre = []
            r = core.guarded(lambda b=b, pre=pre: self._dist(c, circ, c["input"], b, prev, early.get(b), pre))
            if "ok" in r:
                r = {"ok": sorted([list(k), v] for k, v in r["ok"].items())}
            out[b] = r
            if pre:
                out["pre_" + b] = pre
        # the same request one level down: Backend.full_probability_distribution on the compiled circuit
        # with the herald photons inserted (loss modes are added by the backend)
        try:
            fits = len(c["input"]) == circ.input_modes and all(isinstance(x, int) and x >= 0 for x in c["input"])
            built = circ._build() if fits else None
        except Exception:  # noqa: BLE001
            built = None
        if built is not None:
            full = fg.full_state(c["input"], circ.heralds["input"], 0)
            for b in ("permanent", "slos"):
                def run(b=b):
                    d = emulator.Backend(b).full_probability_distribution(built, lw.State(list(full)))
                    return sorted([list(k.s), float(v)] for k, v in d.items())
                out["bk_" + b] = core.guarded(run)
        return out

    def coq_header(self):
        # run_dist of Exec/RunFock.v with the threshold as an argument, and the same request at the level of
        # Backend.full_probability_distribution (Model/Fock.v full_dist); definitions local to the generated file
        return cg.COQ_HEADER + """From LW Require Import Base.Mat Model.State Model.Fock Exec.RunFock.
Import ListNotations.
Definition h04_in {A} (p : list (@op bigQ)) (cid : nat) (input : list Z)
           (f : @circ bigQ -> nat -> @mat (bigQ * bigQ) -> list nat -> A) : res A :=
  with_circuit p cid (fun c tot U =>
     if negb (Nat.eqb (length input) (input_modes c)) then Err ModeMismatchError else
     do _ <- st_validate input;
     do full <- add_heralds_to_state input (hd_of (c_in c));
     Ok (f c tot U (znat full))).
Definition h04_dist (p : list (@op bigQ)) (cid : nat) (slos_backend : bool) (eps : bigQ) (input : list Z) : sx :=
  sxRes sxPd (h04_in p cid input (fun c tot U full =>
     pdist_calc qops (if slos_backend then Slos else Permanent) eps (c_n c) (tot - c_n c) U [(full, 1%bigQ)])).
Definition h04_full (p : list (@op bigQ)) (cid : nat) (slos_backend : bool) (eps : bigQ) (input : list Z) : sx :=
  sxRes sxPd (h04_in p cid input (fun c tot U full =>
     full_dist qops (if slos_backend then Slos else Permanent) eps (c_n c) (tot - c_n c) U full)).
"""

    def coq_expr(self, c):
        prog = clist("(" + cg.op_to_coq(o) + ")" for o in c["prog"])
        inp = clist(cz(x) for x in c["input"])
        t = THRS[c.get("thr", "d")] or (1, 10**9)
        eps = f"(qfrac {cz(t[0])} {cz(t[1])})"
        cid = cn(c["cid"])
        return ("SL (" + " :: ".join(f"{f} {prog} {cid} {b} {eps} {inp}" for f in ("h04_dist", "h04_full") for b in ("false", "true"))
                + " :: nil)")

    def decode(self, c, sx):
        out = {}
        for b, r in zip(("permanent", "slos", "bk_permanent", "bk_slos"), sx):
            out[b] = core.decode_res(r, lambda d: sorted([k, v / 1e12] for k, v in d))
        return out

    def _reference(self, c):
        """(circ, U, n, full_in, exact marginal, truncated marginal, #full states per pattern, all full-state
        probabilities, near) for a well-formed case, None otherwise; cached per case."""
        key = json.dumps(c, sort_keys=True)
        if key in self._cache:
            return self._cache[key]
        res = None
        try:
            circ = self._circuit(c)
            U = circ.U_full
            if len(c["input"]) == circ.input_modes and all(isinstance(x, int) and x >= 0 for x in c["input"]):
                n = circ.n_modes
                eps = self._thr(c)
                full_in = fg.full_state(c["input"], circ.heralds["input"], U.shape[0] - n)
                ref, trunc, nlo, allp = reference_distribution(U, n, full_in, eps)
                # too close to the truncation threshold to decide p > eps in floats
                near = any(abs(p - eps) < 1e-3 * eps for p in allp)
                res = (circ, U, n, full_in, ref, trunc, nlo, allp, near)
        except Exception:  # noqa: BLE001
            res = None
        if len(self._cache) > 20000:
            self._cache.clear()
        self._cache[key] = res
        return res

    def compare(self, c, a, b):
        r = self._reference(c)
        if r is not None and r[8]:
            return None
        for bk in ("permanent", "slos", "bk_permanent", "bk_slos"):
            if bk not in a:
                continue          # the backend-level request is made for well-formed inputs only
            x, y = a[bk], b[bk]
            if ("ok" in x) != ("ok" in y):
                return f"{bk}: outcome {list(x)[0]}:{x.get('err')} vs model {list(y)[0]}:{y.get('err')}"
            if "err" in x:
                if x["err"] != y["err"]:
                    return f"{bk}: error class {x['err']} vs {y['err']}"
                continue
            # the exact model applies the same per-state truncation, so the dictionaries agree to float accuracy
            # (the model prints floor(x * 1e12)); a pattern kept by one side and dropped by the other shows up
            try:
                d = dict_diff({tuple(k): v for k, v in x["ok"]}, {tuple(k): v for k, v in y["ok"]}, TOL)
            except Exception as e:  # noqa: BLE001
                d = f"unreadable distribution ({type(e).__name__}: {e})"
            if d:
                return f"{bk}: {d}"
        return None

    def _check_dist(self, b, d, r, eps):
        """one distribution against the independent reference; None or a failure text"""
        _, U, n, full_in, ref, trunc, nlo, allp, near = r
        injected = sum(full_in)
        nstates = len(allp)
        vac = tuple([0] * n)
        if any(not (v >= 0) for v in d.values()):
            return f"{b}: negative (or undefined) probability"
        tot = sum(d.values())
        # sums to one up to the documented per-state truncation
        if not (1 - eps * nstates - TOL <= tot <= 1 + TOL):
            return f"{b}: distribution sums to {tot!r} (allowed truncation {eps * nstates:.2g})"
        if any(len(k) != n for k in d):
            return f"{b}: a pattern has the wrong number of modes"
        if any(sum(k) > injected for k in d):
            return f"{b}: a pattern holds more photons than were injected"
        for k in set(d) | set(ref):
            got, exact = d.get(k, 0.0), ref.get(k, 0.0)
            if k == vac:
                # the vacuum pattern also receives the truncated mass (at most eps per full state)
                if not (exact - eps * nlo.get(k, 0) - TOL <= got <= exact + eps * nstates + TOL):
                    return f"{b}: P(vacuum) = {got!r}, reference {exact!r}"
                continue
            # each pattern = its total probability over all ways the other photons were lost, every
            # full state of probability <= eps dropped (per-STATE truncation): never above the exact
            # marginal, at most eps per lost-photon configuration below it, and equal to the truncated sum
            if got > exact + TOL or got < exact - eps * nlo.get(k, 0) - TOL:
                return (f"{b}: P{list(k)} = {got!r}, reference (sum over lost-photon configurations) {exact!r}, "
                        f"{nlo.get(k, 0)} configurations")
            if abs(got - trunc.get(k, 0.0)) > TOL:
                return (f"{b}: P{list(k)} = {got!r}, reference with states <= {eps:g} dropped individually "
                        f"{trunc.get(k, 0.0)!r} (exact marginal {exact!r})")
        return None

    def oracle(self, c, obs):
        circ = self._circuit(c)
        try:
            U = circ.U_full
        except Exception:  # noqa: BLE001
            return None
        if len(c["input"]) != circ.input_modes:
            if any("ok" in obs[b] for b in ("permanent", "slos")):
                return "input of the wrong length was accepted"
            return None
        r = self._reference(c)
        if r is None:
            return None
        _, U, n, full_in, ref, trunc, nlo, allp, near = r
        if near:
            return None          # too close to the truncation threshold to compare floats
        eps = self._thr(c)
        nstates = len(allp)
        vac = tuple([0] * n)
        dists = {}
        for b in ("permanent", "slos", "bk_permanent", "bk_slos"):
            if b not in obs:
                if b.startswith("bk_"):
                    return "Backend.full_probability_distribution could not be asked: the circuit does not compile"
                continue
            what = b if not b.startswith("bk_") else f"Backend('{b[3:]}').full_probability_distribution"
            if "ok" not in obs[b]:
                if obs[b]["err"] == "SharedDefault":
                    return ("a Sampler created without a source does not have the documented perfect source: the default Source of an "
                            "earlier, discarded Sampler was tuned in place and is shared")
                return f"{what} raised {obs[b]['err']} on a valid request"
            try:
                d = {tuple(k): v for k, v in obs[b]["ok"]}
            except Exception as e:  # noqa: BLE001
                return f"{what}: unreadable distribution ({type(e).__name__})"
            dists[b] = d
            f = self._check_dist(what, d, r, eps)
            if f:
                return f
        # what the same object answered before the observed read
        for b in ("permanent", "slos"):
            for pre in obs.get("pre_" + b, []):
                if pre[0] == "ok":
                    return (f"{b}: a Sampler re-pointed at a circuit with {circ.input_modes + 1} modes, which its input does not "
                            f"fit, returned a distribution (patterns of {pre[1]} modes)")
                if pre[0].startswith("second read"):
                    return f"{b}: {pre[0]}"
        # same truncation rule in both back ends: they agree to float accuracy on every non-vacuum pattern,
        # and within the truncated mass on the vacuum pattern
        for x, y in (("permanent", "slos"), ("bk_permanent", "bk_slos")):
            a, bb = dists[x], dists[y]
            for k in sorted(set(a) | set(bb)):
                tol = TOL if k != vac else 2 * eps * nstates + TOL
                if abs(a.get(k, 0.0) - bb.get(k, 0.0)) > tol:
                    return f"backends disagree ({x} vs {y}): state {list(k)}: {a.get(k, 0.0)!r} vs {bb.get(k, 0.0)!r}"
        return None

    def nontrivial(self, c, obs):
        lossy = any(o[0] == "loss" or (o[0] == "bs" and o[5] is not None) or (o[0] == "ps" and o[4] is not None) for o in c["prog"])
        her = any(o[0] == "herald" for o in c["prog"])
        return (lossy and sum(c["input"]) >= 2) or her

    def stats(self, cases, recs):
        ph = Counter(sum(c["input"]) for c in cases)
        lossy = sum(1 for c in cases if any(o[0] == "loss" for o in c["prog"]))
        sizes = Counter(len(r["impl"]["slos"].get("ok", [])) for r in recs if isinstance(r["impl"], dict) and "slos" in r["impl"])
        hist = Counter(str(c.get("hist") or ("reuse" if c.get("reuse") else None)) for c in cases)
        thr = Counter(c.get("thr", "d") for c in cases)
        return {"input_photons": dict(ph), "programs_with_loss_calls": lossy, "distribution_sizes": dict(sizes),
                "histories": dict(hist), "threshold_setting": dict(thr)}

    def shrink(self, c):
        for i in range(len(c["prog"]) - 1, 0, -1):
            if c["prog"][i][0] in ("bs", "ps", "loss", "barrier", "swaps"):
                d = copy.deepcopy(c)
                del d["prog"][i]
                yield d

    def signature(self, c, rec):
        return None


PROP = C04()

if __name__ == "__main__":
    sys.exit(core.main(PROP))
