"""Regenerates MANIFEST.json from the table below (run: python3 harness/manifest_gen.py)."""
import json, os
ROOT = os.path.dirname(os.path.dirname(os.path.abspath(__file__)))
TEST_CMD = "cd /repo && env -u LIGHTWORKS_VERIF /venv/bin/python -m pytest -ra -q -p no:cacheprovider --timeout=900 --continue-on-collection-errors -n 16"
ALL = [f"C{i:02d}" for i in range(1, 20)]
CHECKS = {
    "C01": dict(
        text="Coq theorems, for every construction program and every real parameter value: compile succeeds, U_full has one extra mode per loss element, U_full is unitary, and its leading block (Circuit.U) is the insertion-ordered product of the component embeddings with a loss element as the factor sqrt(1-loss) (generic over commutative *-rings, instantiated at the reals with sqrt/cos/sin); tied to /repo by a correspondence run of generated API programs (exact rational amplitudes) and a numpy oracle re-computing the ordered product and unitarity on arbitrary values.",
        note="Coq kernel + vm_compute (bigQ execution instance only in the correspondence); stdlib Reals axioms for the real-valued theorem; hand-written model of Circuit.bs/ps/loss/barrier/mode_swaps/add, CompiledCircuit.add and components.get_unitary; floats vs exact rationals at 1e-9.",
        technique="Coq proof (induction over the program, unitarity of embeddings over an abstract *-ring) + model/implementation correspondence",
        ref="6 C01"),
    "C02": dict(
        text="Coq theorems for all circuits/mode numbers (closed under the global context, over an abstract *-ring): user-mode numbering = rank among non-ancilla modes (never an ancilla, order preserving); add accepted iff it fits into the non-ancilla modes (else ModeRangeError); later primitives act only on non-ancilla modes. MATRIX-LEVEL WIRING (C02_add_wiring, fully general: lossy parent and sub-circuit, parent ancillas inside the span, herald input mode != output mode, any declaration order, grouped or not): after every accepted add the compiled matrix of the result is E . iota(U_P), with U_P transported along an order-preserving injection, the sub-circuit's matrix transported along the wiring maps (j-th open mode -> j-th visible mode from m, heralds -> fresh private ancillas carrying the herald photon number at input and output), identity elsewhere, loss modes of P then S appended; the invariants are re-established so the theorem applies at any nesting depth. AMPLITUDES (C02_add_amplitudes, via a Cauchy-Binet theorem for permanents): the transition amplitudes of the result are the sum over intermediate Fock states of the parent's own amplitudes times the sub-circuit's own amplitudes under this wiring, parent ancillas and new ancillas passing through untouched, heralds of the result restrict to the heralds of the parts. Supporting layers: compile commutes with mode insertion (aem), with shifting, swap completion is an order-preserving permutation, amplitude transport along injections. Tied to /repo by the correspondence between the executable model of Circuit.add and the implementation on random circuit trees and by an independent numpy wiring reference.",
        note="Coq kernel + vm_compute; theorems closed under the global context; hand-written model of Circuit.add/_map_mode/_add_empty_mode/circuit_utils tied to the code by the correspondence run; C02_add_amplitudes_real instantiates the amplitude theorem at the reals (stdlib Reals axioms).",
        technique="Coq proof (matrix transport along injections, fold invariants over the ancilla list, induction over specs) + model/implementation correspondence + independent wiring oracle",
        ref="6 C02"),
    "C03": dict(
        text="Coq theorems for every matrix/circuit, herald dictionaries, loss-mode count and Fock states: every accepted simulate request returns, per input/output pair, the permanent of the photon-indexed sub-matrix of U_full (heralds inserted, vacuum on loss modes) with the product of occupation factorials (amplitude = permanent/sqrt(factor), no square root computed in the model); the executable Laplace permanent is the sum over permutations; wrong length / negative occupation / photon-number mismatch are rejected with nothing computed; outputs=None enumerates the Fock basis exactly; Fock-space unitarity (sum over the basis of |amp|^2 = 1 for every unitary, every mode count and photon number, via a Cauchy-Binet theorem for permanents). Tied to /repo by a correspondence run on random circuit trees x Fock states and an independent direct-expansion permanent oracle.",
        note="Coq kernel + vm_compute; closed theorems except the unitarity theorem over R (stdlib Reals axioms); hand-written model of Simulator/Permanent/heralding_utils/fock_basis; thewalrus.perm is assumed to be the mathematical permanent (oracle recomputes it); non-integer occupations only in the Python malformed stream.",
        technique="Coq proof (induction over photon lists, Cauchy-Binet for permanents) + model/implementation correspondence",
        ref="6 C03"),
    "C06": dict(
        text="31 Coq theorems over the model of Source (single-photon table, per-mode and full statistics, remapping, threshold) and of the annotated-state pipeline: the table sums to one and is non-negative on the documented ranges, input statistics are normalised for every input state, perfect settings give the ideal source, g2 = 1 - purity for the code's formula over R, HOM coincidence (1-I)/2, the output is the mixture over independent per-photon outcomes with equal labels interfering and groups convolved (mixture_spec), remapping merges only label-isomorphic states, zero indistinguishability gives classical particles, output normalised when the backend's distributions are. Tied to /repo by a correspondence run over rational (brightness, p2, sqrt I) and an independent Python mixture oracle.",
        note="Coq kernel + vm_compute; stdlib Reals axioms for the theorems over R (sqrt, ranges), others closed; hand-written model of emulator/components/source.py and annotated_state_pdist_calc; backend distributions enter as a function D (C04 ties them).",
        technique="Coq proof (ring identities, induction over modes/photons/labels; reals for sqrt/g2) + model/implementation correspondence",
        ref="6 C06"),
    "C07": dict(
        text="16 Coq theorems over the model of Detector._get_output and the Sampler sampling loops as functions of the uniform stream: for EVERY stream every state returned by sample_N_inputs / sample_N_outputs / the quick sampler satisfies heralds (removed), post-selection and min_detection, sample_N_outputs returns exactly N; _get_output is its decision tree and the tree's law is exactly: each photon kept with probability efficiency, then at most one dark count per mode, then the threshold cap (identity of finitely supported measures over any commutative ring); accepted fraction = accepted mass of detect(dist); inverse-CDF law for Generator.choice and the sample() scan (interval of length p/total). Sampler.sample() ignoring heralds is REFUTED (recorded known finding N7) with a partial theorem for herald-free circuits. Tied to /repo by oracle-stream replay: sample-by-sample equality with the implementation fed the same pre-drawn uniforms. Convergence of frequencies and PRNG quality are outside proof (labelled statistical test in the oracle).",
        note="Coq kernel + vm_compute; Reals axioms only for C07_detector_valid_reals; the one measure-theoretic assumption: a uniform u in [0,1) satisfies u < p with probability p; random/numpy PRNG streams are oracles pre-drawn by the harness.",
        technique="Coq proof (invariants over the sampling loops for all oracle streams; decision-tree law) + oracle-stream correspondence",
        ref="6 C07"),
    "C09": dict(
        text="19 Coq theorems over the model of unpack_groups, remove_non_adjacent_bs, combine_mode_swap_dicts, compress_mode_swaps, freeze/copy: each rewrite, and every sequence of rewrites, leaves the compile outcome and U_full (hence heralded amplitudes), n_modes, heralds and input size unchanged for every spec; postconditions (no group remains; every beam splitter adjacent; combine denotes composition and drops only fixed points; component count does not grow); the pinned compress_mode_swaps is refuted by a witness (repaired in /repo). Tied to /repo by a correspondence run on random specs with every component kind and rewrite sequences, and a numpy oracle U_full before = after.",
        note="Coq kernel + vm_compute; closed theorems over an abstract *-ring; hand-written model of circuit_utils.py rewrites and Circuit wrappers.",
        technique="Coq proof (commutation of disjoint-support permutations, induction over specs) + model/implementation correspondence",
        ref="6 C09"),
    "C10": dict(
        text="15 Coq theorems over the Parameter/ParameterDict store machine and compile-with-store: bounds invariant after any history of accepted and rejected calls, rejected update changes nothing, live binding (U_full read = compilation under the values held at that moment, wherever the reference sits, after any history), frozen copy constant and parameter-free, get_all_params lists each parameter once through groups, an out-of-range value surfaces as CircuitCompilationError. Tied to /repo by stateful histories interleaving updates with construction, copy, freeze and U reads.",
        note="Coq kernel + vm_compute; Reals axioms only for the bounds theorem over R; values are rationals (NaN outside the model).",
        technique="Coq proof (invariants over histories of the store machine) + history correspondence",
        ref="6 C10"),
    "C11": dict(
        text="14 Coq theorems over the cache state machines of Sampler, QuickSampler and Analyzer: if the snapshot determines the distribution then after EVERY history of reconfigurations, in-place edits, reads and sampling calls each call returns what a fresh object with the current settings returns (generic), instantiated for the repaired snapshots; sampling works without first reading the distribution; analyze returns only what this call computes; the pinned behaviours (N3, F7, N4, N12) are refuted by witnesses (all repaired in /repo). Tied to /repo by histories compared step by step with a fresh object.",
        note="Coq kernel + vm_compute; closed theorems; the distribution is an abstract function of the configuration (C04/C06 tie it to the backend).",
        technique="Coq proof (cache-coherence invariant over histories) + history correspondence against fresh objects",
        ref="6 C11"),
    "C12": dict(
        text="18 Coq theorems over the model of qiskit_converter: adjacency routing spec for all qubit pairs (unbounded), post_selection_analyzer characterisation, conversion succeeds iff every instruction is acceptable (refusals = ValueError of the first offender, nothing returned), emitted operations are well formed and denote the source instructions at the qubit level (dispatch, mode arithmetic, target choice, inserted swaps) for every program, abstract post-selection soundness iff each post-selected gate has at most one later-reused qubit (the repaired analyzer guarantees it; the pinned `all` rule is refuted). The matrix-level statement 'accepted amplitudes = scalar x qiskit unitary' is NOT a Coq theorem: it is decided per run by the oracle (dual-rail amplitudes vs qiskit Operator) on random qiskit circuits.",
        note="Coq kernel + vm_compute; closed theorems; physics abstraction of post-selection (a failed post-selected gate leaves a non-all-ones count on its qubits) is part of the trusted base; qiskit object access is harness glue.",
        technique="Coq proof (induction over gate programs; routing arithmetic over nat) + model/implementation correspondence + amplitude oracle",
        ref="6 C12"),
    "C15": dict(
        text="Coq theorems over the model of StateTomography: for n = 1,2,3 and EVERY 2^n x 2^n matrix rho, every ordering of the requested settings, reconstruction from noiseless Born frequencies returns rho (linearity + finite basis check in Q(i,sqrt2), also over C = R*R); exactly one circuit per setting = base circuit followed by the per-qubit basis changes; each basis change measures its Pauli for all n; fidelity one for pure states under the sqrtm contract. Tied to /repo by a correspondence run on base circuits from the gate library (incl. heralded CZ) with complex amplitudes and shuffled callback order.",
        note="Coq kernel + vm_compute; Reals axioms for the complex-number instance; scipy sqrtm is an oracle with a stated contract; the photonic level (dual-rail frequencies of the real circuits) is tied by the correspondence run only.",
        technique="Coq proof (linearity + finite verification in an exact number field) + model/implementation correspondence",
        ref="6 C15"),
    "C19": dict(
        text="9 Coq theorems over the model of the index arithmetic of both drawers: display is total (no index/key/empty-max failure) for every well-formed circuit with >= 1 mode and every option combination; well-formedness is an invariant of EVERY program of API calls (add in full generality), so any constructible circuit with >= 1 mode displays; wrong label length / unknown type give DisplayError. lw.Circuit(0) is constructible and both back ends raise: refuted theorem + recorded known finding. Tied to /repo by running both real back ends (SVG, matplotlib Agg) on every generated circuit x options and comparing the outcome class, plus snapshot-unchanged oracle.",
        note="Coq kernel + vm_compute; closed theorems; drawing primitives (drawsvg/matplotlib internals) are abstract.",
        technique="Coq proof (well-formedness invariant over API programs; totality of the index arithmetic) + outcome-class correspondence",
        ref="6 C19"),
    "C08": dict(
        text="Coq theorems over the pool-of-objects model of the Circuit API: every call changes at most its target object (so the circuit passed to add, the operands of +, the source of copy are unchanged), a call that raises changes nothing, and over whole histories untargeted objects keep their state. Because a functional model cannot exhibit aliasing it does not write down, the deciding evidence for the real objects is the per-run correspondence: after EVERY call of random API histories (malformed calls, reused arguments, parents with ancillas, interleaved Simulator/Sampler/Analyzer/Reck/Display/converter/tomography calls) every live object is snapshotted and compared with its previous state and with the model.",
        note="Coq kernel + vm_compute; theorems closed; hand-written model; unmodelled aliasing is guarded only by the snapshot comparison (differential test).",
        technique="Coq proof (frame properties of the state machine) + per-call snapshot correspondence",
        ref="6 C08"),
    "C17": dict(
        text="20 Coq theorems (closed, generic over any commutative ring) over the model of SimulationResult/SamplingResult: index coherence for all contents, mapping image/row conservation/composition/idempotence for every set-iteration order, refusal for amplitude results, exact sampling counts; tied to /repo by a correspondence run and an independent brute-force oracle.",
        note="Coq kernel + vm_compute; no axioms; hand-written model tied to the code by the correspondence run; plotting/printing not modelled.",
        technique="Coq proof (induction over association lists) + model/implementation correspondence",
        ref="6 C17"),
    "C18": dict(
        text="Unbounded Coq theorems over the hand-written model of State/AnnotatedState/heralding_utils/fock_basis/conversion (equality, +/merge laws, slicing, label-multiset equality, herald insertion/removal round trip for every state and herald dictionary, Fock-basis exactness, dB inverses over R) plus a correspondence run tying the model to /repo on generated inputs and a direct oracle of the property on the implementation.",
        note="Coq kernel + vm_compute; stdlib Reals axioms for the dB theorem only; model is hand-written and tied to the code by the per-run correspondence check; random_unitary/permutation and float dB round trip checked by the Python oracle only.",
        technique="Coq proof (induction over lists) + model/implementation correspondence by vm_compute",
        ref="6 C18"),
}
NA_REASON = "check under construction in this session (model/proofs partly written, not yet passing end to end; plan in DESIGN.md section 6) - not claimed until its quick command is green on the unchanged tree"
m = {
    "version": 1,
    "setup_cmd": "cd /verif/coq && bash build.sh --setup",
    "hooks": {"guard": "LIGHTWORKS_VERIF", "enable": "no hooks are needed: checks drive the public API of /repo's working tree (PYTHONPATH=/repo); the variable is exported by ./check but read by nothing in /repo",
              "baseline_off_cmd": TEST_CMD, "source_commits": [], "add_only": True},
    "engines": [{"name": "coq-model", "path": "/verif/coq", "serves_properties": sorted(CHECKS), "kind_free_text": "Coq 8.16 development: executable Gallina model + theorems"},
                {"name": "harness", "path": "/verif/harness", "serves_properties": sorted(CHECKS), "kind_free_text": "Python correspondence/oracle driver"}],
    "checks": [],
    "notes": "Every check: (1) full make of /verif/coq, forbidden-construct scan, recompile Properties/<id>.v capturing Print Assumptions; (2) corpus + generated cases through /repo's implementation and through the Coq model (vm_compute), compared; (3) direct property oracle on the implementation (failing-input search). Repairs of genuine defects are 'fix:' commits in /repo listed in KNOWN_FINDINGS.txt.",
    "not_applicable": [],
}
for pid in ALL:
    if pid in CHECKS:
        c = CHECKS[pid]
        m["checks"].append({
            "property_id": pid, "quick_cmd": f"./check {pid} --tier quick", "thorough_cmd": f"./check {pid} --tier thorough",
            "evidence_file": f"/verif/evidence/{pid}.json", "replay_cmd_template": f"./check {pid} --replay {{path}}",
            "engine": "coq-model", "level_claimed": {"category": "proof", "text": c["text"], "design_ref": c["ref"]},
            "level_note": c["note"], "technique": c["technique"]})
    else:
        m["not_applicable"].append({"property_id": pid, "reason": NA_REASON})
json.dump(m, open(os.path.join(ROOT, "MANIFEST.json"), "w"), indent=1)
print("checks:", [c["property_id"] for c in m["checks"]])
