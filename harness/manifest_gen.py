"""Regenerates MANIFEST.json from the table below (run: python3 harness/manifest_gen.py)."""
import json, os
ROOT = os.path.dirname(os.path.dirname(os.path.abspath(__file__)))
TEST_CMD = "cd /repo && env -u LIGHTWORKS_VERIF /venv/bin/python -m pytest -ra -q -p no:cacheprovider --timeout=900 --continue-on-collection-errors -n 16"
ALL = [f"C{i:02d}" for i in range(1, 20)]
CHECKS = {
    "C01": dict(
        text="Coq theorems, for every construction program and every real parameter value: compile succeeds, U_full has one extra mode per loss element, U_full is unitary, and its leading block (Circuit.U) is the insertion-ordered product of the component embeddings with a loss element as the factor sqrt(1-loss) (generic over commutative *-rings, instantiated at the reals with sqrt/cos/sin); tied to /repo by a correspondence run of generated API programs (exact rational amplitudes) and a numpy oracle re-computing the ordered product and unitarity on arbitrary values.",
        note="Coq kernel + vm_compute (bigQ execution instance only in the correspondence); stdlib Reals axioms for the real-valued theorem; hand-written model of Circuit.bs/ps/loss/barrier/mode_swaps/add, CompiledCircuit.add and components.get_unitary; floats vs exact rationals at 1e-9.",
        technique="Coq proof (induction over the program, unitarity of embeddings over an abstract *-ring) + model/implementation correspondence",
        ref="6 C01"),
    "C02": dict(
        text="Coq theorems for all circuits/mode numbers: user-mode numbering = rank among non-ancilla modes (never an ancilla, order preserving), add accepted iff it fits into the non-ancilla modes (else ModeRangeError), later primitives act only on non-ancilla modes and are the identity elsewhere. The matrix-level wiring statement is NOT proved in Coq: it is decided per run by the correspondence between the executable model of Circuit.add and /repo on random circuit trees (depth<=3, heralds in any order, in!=out herald modes, ancillas inside spans) and by an independent numpy wiring reference (U_R = E.iota(U_P) for some ancilla placement) applied to every accepted add.",
        note="Coq kernel + vm_compute; theorems closed under the global context; hand-written model of Circuit.add/_map_mode/_add_empty_mode/circuit_utils; wiring theorem missing (partial): correspondence + oracle carry it.",
        technique="Coq proof (fold invariants over the ancilla list) + model/implementation correspondence + independent wiring oracle",
        ref="6 C02"),
    "C08": dict(
        text="Coq theorems over the pool-of-objects model of the Circuit API: every call changes at most its target object (so the circuit passed to add, the operands of +, the source of copy are unchanged), a call that raises changes nothing, and over whole histories untargeted objects keep their state. Because a functional model cannot exhibit aliasing it does not write down, the deciding evidence for the real objects is the per-run correspondence: after EVERY call of random API histories (malformed calls, reused arguments, parents with ancillas, interleaved Simulator/Sampler/Analyzer/Reck/Display/converter/tomography calls) every live object is snapshotted and compared with its previous state and with the model.",
        note="Coq kernel + vm_compute; theorems closed; hand-written model; unmodelled aliasing is guarded only by the snapshot comparison (differential test).",
        technique="Coq proof (frame properties of the state machine) + per-call snapshot correspondence",
        ref="6 C08"),
    "C17": dict(
        text="20 Coq theorems (closed, generic over any commutative ring) over the model of SimulationResult/SamplingResult: index coherence for all contents, mapping image/row conservation/composition/idempotence for every set-iteration order, refusal for amplitude results, exact sampling counts; tied to /repo by a correspondence run and an independent brute-force oracle.",
        note="Coq kernel + vm_compute; no axioms; hand-written model tied to the code by the correspondence run; plotting/printing not modelled.",
        technique="Coq proof (induction over association lists) + model/implementation correspondence",
        ref="6 C17"),
    "C18": dict(
        text="Unbounded Coq theorems over the hand-written model of State/AnnotatedState/heralding_utils/fock_basis/conversion (equality, +/merge laws, slicing, label-multiset equality, herald insertion/removal round trip for every state and herald dictionary, Fock-basis exactness, dB inverses over R) plus a correspondence run tying the model to /repo on generated inputs and a direct oracle of the property on the implementation.",
        note="Coq kernel + vm_compute; stdlib Reals axioms for the dB theorem only; model is hand-written and tied to the code by the per-run correspondence check; random_unitary/permutation and float dB round trip checked by the Python oracle only.",
        technique="Coq proof (induction over lists) + model/implementation correspondence by vm_compute",
        ref="6 C18"),
}
NA_REASON = "check not built yet in this session (work in progress; see DESIGN.md section 6 for the plan)"
m = {
    "version": 1,
    "setup_cmd": "cd /verif/coq && bash build.sh",
    "hooks": {"guard": "LIGHTWORKS_VERIF", "enable": "no hooks are needed: checks drive the public API of /repo's working tree (PYTHONPATH=/repo); the variable is exported by ./check but read by nothing in /repo",
              "baseline_off_cmd": TEST_CMD, "source_commits": [], "add_only": True},
    "engines": [{"name": "coq-model", "path": "/verif/coq", "serves_properties": sorted(CHECKS), "kind_free_text": "Coq 8.16 development: executable Gallina model + theorems"},
                {"name": "harness", "path": "/verif/harness", "serves_properties": sorted(CHECKS), "kind_free_text": "Python correspondence/oracle driver"}],
    "checks": [],
    "notes": "Every check: (1) full make of /verif/coq, forbidden-construct scan, recompile Properties/<id>.v capturing Print Assumptions; (2) corpus + generated cases through /repo's implementation and through the Coq model (vm_compute), compared; (3) direct property oracle on the implementation (failing-input search). Repairs of genuine defects are 'fix:' commits in /repo listed in KNOWN_FINDINGS.txt.",
    "not_applicable": [],
}
for pid in ALL:
    if pid in CHECKS:
        c = CHECKS[pid]
        m["checks"].append({
            "property_id": pid, "quick_cmd": f"./check {pid} --tier quick", "thorough_cmd": f"./check {pid} --tier thorough",
            "evidence_file": f"/verif/evidence/{pid}.json", "replay_cmd_template": f"./check {pid} --replay {{path}}",
            "engine": "coq-model", "level_claimed": {"category": "proof", "text": c["text"], "design_ref": c["ref"]},
            "level_note": c["note"], "technique": c["technique"]})
    else:
        m["not_applicable"].append({"property_id": pid, "reason": NA_REASON})
json.dump(m, open(os.path.join(ROOT, "MANIFEST.json"), "w"), indent=1)
print("checks:", [c["property_id"] for c in m["checks"]])
