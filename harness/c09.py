"""C09 — circuit rewrites preserve the transformation.

Programs = construction calls of circgen (new/unitary/bs/ps/loss/barrier/swaps/herald/add/plus/copy/unpack)
plus the rewrite calls
  ["compress", id]        c.compress_mode_swaps()
  ["nonadj", id]          c.remove_non_adjacent_bs()
  ["copyf", new, a]       new = a.copy(freeze_parameters=True)
Case kinds:
  flat / chain / tree : run on lightworks AND on the Coq model (Exec/RunC09.v run_prog9); after every rewrite
                        call and at the end n_modes, input size, heralds, U_full and the component list
                        (kinds, modes, values, swap dictionaries, group spans/heralds, recursively) are compared.
  param               : implementation only; components carry lw.Parameter objects (frozen-copy oracle).
The oracle states the property directly on the implementation after every rewrite call.
"""
from __future__ import annotations

import copy
import json
import random
import sys
import zlib
from collections import Counter

import numpy as np

import core
import circgen as cg

import lightworks as lw
from lightworks import emulator
from lightworks.sdk.circuit.components import (Barrier, BeamSplitter, Group, Loss, ModeSwaps, PhaseShifter,
                                               UnitaryMatrix)

REWRITES = ("unpack", "compress", "nonadj", "copy", "copyf")
ATOL = 1e-9


# ---------------------------------------------------------------- reading the implementation
def spec_struct(spec):
    out = []
    for s in spec:
        if isinstance(s, BeamSplitter):
            r = s.reflectivity
            out.append([0, s.mode_1, s.mode_2, float(r) if not isinstance(r, lw.Parameter) else -1, 0 if s.convention == "Rx" else 1])
        elif isinstance(s, PhaseShifter):
            out.append([1, s.mode])
        elif isinstance(s, Loss):
            l = s.loss
            out.append([2, s.mode, float(l) if not isinstance(l, lw.Parameter) else -1])
        elif isinstance(s, Barrier):
            out.append([3, [int(m) for m in s.modes]])
        elif isinstance(s, ModeSwaps):
            out.append([4, sorted([int(k), int(v)] for k, v in s.swaps.items())])
        elif isinstance(s, UnitaryMatrix):
            out.append([5, s.mode, int(s.unitary.shape[0])])
        elif isinstance(s, Group):
            out.append([6, s.mode_1, s.mode_2, sorted([int(k), int(v)] for k, v in s.heralds["input"].items()),
                        sorted([int(k), int(v)] for k, v in s.heralds["output"].items()), spec_struct(s.circuit_spec)])
        else:
            out.append([99, type(s).__name__])
    return out


def snapshot9(c):
    return [cg.snapshot(c), spec_struct(c._get_circuit_spec())]


def apply9(pool, op):
    k = op[0]
    if k == "compress":
        pool[op[1]].compress_mode_swaps()
    elif k == "nonadj":
        pool[op[1]].remove_non_adjacent_bs()
    elif k == "copyf":
        pool[op[1]] = pool[op[2]].copy(freeze_parameters=True)
    else:
        cg.apply_op(pool, op)


def source_of(op):
    return op[2] if op[0] in ("copy", "copyf") else op[1]


def target_of(op):
    return op[1]


# ---------------------------------------------------------------- the property, stated on the implementation
def _umat(snap):
    dim, rows = snap[5]["ok"]
    return np.array([[complex(x[0], x[1]) for x in row] for row in rows]).reshape(dim, dim)


def same_transformation(B, A):
    """B, A = circgen snapshots (n, input size, in heralds, out heralds, internal, U_full)."""
    if A[0] != B[0]:
        return f"n_modes {B[0]} -> {A[0]}"
    if A[1] != B[1]:
        return f"input size {B[1]} -> {A[1]}"
    if sorted(map(tuple, A[2])) != sorted(map(tuple, B[2])) or sorted(map(tuple, A[3])) != sorted(map(tuple, B[3])):
        return f"heralds changed: {B[2]}/{B[3]} -> {A[2]}/{A[3]}"
    if ("ok" in B[5]) != ("ok" in A[5]):
        return f"compile outcome changed: {'ok' if 'ok' in B[5] else B[5]} -> {'ok' if 'ok' in A[5] else A[5]}"
    if "ok" not in B[5]:
        return None
    if B[5]["ok"][0] != A[5]["ok"][0]:
        return f"U_full dimension {B[5]['ok'][0]} -> {A[5]['ok'][0]}"
    d = np.abs(_umat(B) - _umat(A)).max() if B[5]["ok"][0] else 0.0
    if not d <= ATOL:
        return f"U_full changed (max deviation {d:.3g})"
    return None


def has_group(st):
    return any(s[0] == 6 for s in st)


def non_adjacent_bs(st):
    for s in st:
        if s[0] == 0 and abs(s[1] - s[2]) != 1:
            return s
        if s[0] == 6:
            r = non_adjacent_bs(s[5])
            if r:
                return r
    return None


def amplitudes(c, photons):
    """All heralded transition amplitudes of one input with `photons` photons spread over the first open modes."""
    k = c.input_modes
    occ = [0] * k
    for i in range(photons):
        occ[i % k] += 1
    res = emulator.Simulator(c).simulate(lw.State(occ))
    return {str(o): complex(a) for o, a in zip(res.outputs, res.array[0])}


def mutate(c):
    """Change a circuit in every way the public API offers (each call may be rejected; that is fine)."""
    nvis = c.n_modes - len(c._internal_modes)
    calls = [
        lambda: c.ps(0, 0.7),
        lambda: c.bs(0, nvis - 1, reflectivity=0.3, loss=0.2),
        lambda: c.mode_swaps({0: nvis - 1, nvis - 1: 0}),
        lambda: c.loss(nvis - 1, 0.4),
        lambda: c.barrier(),
        lambda: _add_heralded(c, 0),
        lambda: _add_heralded(c, max(0, nvis - 2)),
        lambda: c.herald(1, nvis - 1),
        lambda: c.remove_non_adjacent_bs(),
        lambda: c.compress_mode_swaps(),
        lambda: c.unpack_groups(),
        lambda: c.ps(0, 0.1),
    ]
    done = 0
    for f in calls:
        try:
            f()
            done += 1
        except Exception:  # noqa: BLE001
            pass
    return done


def _add_heralded(c, mode):
    sub = lw.Circuit(2)
    sub.bs(0, reflectivity=0.4)
    sub.herald(0, 1, 0)
    c.add(sub, mode, group=True)


def do_rewrite(c, kind):
    """Apply one rewrite to a circuit, returning the rewritten object (a new one for copies)."""
    if kind == "unpack":
        c.unpack_groups()
        return c
    if kind == "compress":
        c.compress_mode_swaps()
        return c
    if kind == "nonadj":
        c.remove_non_adjacent_bs()
        return c
    if kind == "copy":
        return c.copy()
    return c.copy(freeze_parameters=True)


def independence(original, kind):
    """The rewritten object shares no mutable structure with the original: mutate one, the other must not move.
    Works on clones so that the program under test is not disturbed."""
    for direction in ("rewritten", "original"):
        a = copy.deepcopy(original)
        if kind in ("copy", "copyf"):
            b = do_rewrite(a, kind)
        else:
            b = do_rewrite(a.copy(), kind)
        keep, move = (a, b) if direction == "rewritten" else (b, a)
        before = snapshot9(keep)
        if mutate(move) == 0:
            return "INTERNAL: no mutation was accepted"
        after = snapshot9(keep)
        d = core.approx_equal(before, after, tol=1e-12)
        if d:
            who = "original" if direction == "rewritten" else "rewritten object"
            return f"after {kind}: mutating the {direction} object changed the {who}: {d}"
    return None


def rewrite_oracle(op, src_before, src_obj_before, after_obj, deep):
    """src_before = snapshot9 of the source before the call, after_obj = the rewritten object."""
    k = op[0]
    A = snapshot9(after_obj)
    msg = same_transformation(src_before[0], A[0])
    if msg:
        return f"{k}: {msg}"
    if k == "unpack" and has_group(A[1]):
        return "unpack_groups: a Group remains"
    if k == "nonadj":
        bad = non_adjacent_bs(A[1])
        if bad:
            return f"remove_non_adjacent_bs: beam splitter on modes {bad[1]},{bad[2]} remains"
    if k == "compress" and len(A[1]) > len(src_before[1]):
        return f"compress_mode_swaps: component count grew {len(src_before[1])} -> {len(A[1])}"
    if k == "copyf" and after_obj.get_all_params():
        return "copy(freeze_parameters=True): the copy still has parameters"
    if deep:
        msg = independence(src_obj_before, k)
        if msg:
            return msg
        if "ok" in A[0][5] and 1 <= after_obj.input_modes <= 4 and A[0][5]["ok"][0] <= 9:
            for ph in (1, 2):
                x, y = amplitudes(src_obj_before, ph), amplitudes(after_obj, ph)
                if x.keys() != y.keys() or any(abs(x[s] - y[s]) > ATOL for s in x):
                    return f"{k}: a heralded transition amplitude changed ({ph} photon input)"
    return None


def run_impl9(prog, deep=True, params=None):
    """Returns ([steps, world], pool, oracle failure or None, info)."""
    pool = {}
    steps = []
    fail = None
    n_rewrites = 0
    n_changed = 0
    copies = set()
    effects = []
    for op in prog:
        is_rw = op[0] in REWRITES
        before = before_obj = None
        others = {}
        if is_rw and source_of(op) in pool:
            before = snapshot9(pool[source_of(op)])
            before_obj = copy.deepcopy(pool[source_of(op)])
            # every other circuit alive (copies, sums, parents and sub-circuits share component objects with the one
            # that is rewritten); for copy / frozen copy also the circuit that is copied
            in_place = op[0] not in ("copy", "copyf")
            others = {cid: snapshot9(x) for cid, x in pool.items() if not (in_place and cid == op[1])}
        try:
            if params is not None:
                apply_param_op(pool, op, params)
            else:
                apply9(pool, op)
            out = {"ok": []}
        except NotImplementedError:
            out = {"err": "OtherError"}
        except Exception as e:  # noqa: BLE001
            out = {"err": cg.err_name_for(op, e)}
        snap = []
        if is_rw:
            if "ok" in out:
                snap = [snapshot9(pool[target_of(op)])]
                n_rewrites += 1
                if op[0] in ("copy", "copyf"):
                    copies.update((op[1], op[2]))
                elif before is not None and before[1] != snap[0][1]:
                    n_changed += 1       # the rewrite really changed the component list
                if before is not None:
                    effects.append([op[0], len(before[1]), len(snap[0][1]), sum(1 for s_ in snap[0][1] if s_[0] == 4),
                                    has_group(before[1]), before[1] != snap[0][1]])
                if fail is None and before is not None:
                    try:
                        fail = rewrite_oracle(op, before, before_obj, pool[target_of(op)], deep)
                    except Exception as e:  # noqa: BLE001
                        fail = f"oracle raised {type(e).__name__}: {e} at {op}"
                    if fail:
                        fail = f"op #{len(steps)} {op}: {fail}"
                if fail is None:
                    for cid, sb in others.items():
                        if cid == op[1] and op[0] in ("copy", "copyf"):
                            continue             # the name was re-bound to the new copy
                        d = core.approx_equal(sb, snapshot9(pool[cid]), tol=1e-12)
                        if d:
                            fail = f"op #{len(steps)} {op}: the rewrite changed circuit {cid}, which is not the one rewritten: {d}"
                            break
            elif fail is None:
                fail = f"op #{len(steps)} {op}: rewrite call raised {out['err']}"
        elif "ok" in out and op[1] in copies and op[0] not in ("new", "unitary"):
            n_changed += 1               # a copy (or its source) was modified after the copy was taken
        steps.append([out, snap])
    world = [[cid, snapshot9(pool[cid])] for cid in pool]
    return [steps, world], pool, fail, {"rewrites": n_rewrites, "changed": n_changed, "effects": effects}


# ---------------------------------------------------------------- Parameter-carrying programs (oracle only)
def apply_param_op(pool, op, P):
    """P = list of lw.Parameter; a value field ["par", k] refers to P[k]."""
    def val(x, conv):
        if isinstance(x, list) and x and x[0] == "par":
            return P[x[1]]
        return conv(x)
    k = op[0]
    if k == "bs":
        _, cid, m1, m2, R, L, conv = op
        pool[cid].bs(m1, m2, reflectivity=val(R, cg._bs_value), loss=val(L, cg._loss_value), convention=conv)
    elif k == "ps":
        _, cid, m, Ph, L = op
        pool[cid].ps(m, val(Ph, cg._phase_value), loss=val(L, cg._loss_value))
    elif k == "loss":
        pool[op[1]].loss(op[2], val(op[3], cg._loss_value))
    else:
        apply9(pool, op)


def param_value(kind, idx):
    if kind == "bs":
        return cg._bs_value(idx)
    if kind == "loss":
        return cg._loss_value(idx)
    return cg._phase_value(idx)


def run_param_case(c):
    P = [lw.Parameter(param_value(kind, i0)) for kind, i0, _ in c["pars"]]
    obs, pool, fail, info = run_impl9(c["prog"], deep=False, params=P)
    n_rw = info["rewrites"]
    if fail:
        return fail, n_rw
    t = pool[c["target"]]
    try:
        U0 = np.array(t.U_full)
    except Exception as e:  # noqa: BLE001
        return f"target does not compile: {type(e).__name__}", n_rw
    her0, nm0, in0 = t.heralds, t.n_modes, t.input_modes
    n_par = len(t.get_all_params())
    frozen = t.copy(freeze_parameters=True)
    live = t.copy()
    rewritten = {}
    for seq in (("unpack",), ("compress",), ("nonadj",), ("nonadj", "compress"), ("unpack", "nonadj", "compress")):
        r = t.copy()
        for kd in seq:
            do_rewrite(r, kd)
        rewritten[seq] = r
    frozen_rw = t.copy(freeze_parameters=True)
    frozen_rw.remove_non_adjacent_bs()
    frozen_rw.compress_mode_swaps()
    if frozen.get_all_params():
        return "frozen copy still lists parameters", n_rw
    if frozen_rw.get_all_params():
        return "rewritten frozen copy lists parameters", n_rw
    if len(live.get_all_params()) != n_par:
        return "plain copy lost parameters", n_rw
    for name, x in [("frozen copy", frozen), ("copy", live), ("rewritten frozen copy", frozen_rw)] + [("+".join(s), r) for s, r in rewritten.items()]:
        if x.n_modes != nm0 or x.input_modes != in0 or x.heralds != her0:
            return f"{name}: n_modes/input size/heralds differ from the original", n_rw
        d = np.abs(np.array(x.U_full) - U0).max()
        if not d <= ATOL:
            return f"{name}: U_full differs from the original by {d:.3g} (parameters at their initial values)", n_rw
    # change every parameter: frozen objects must not move, live ones must follow the original
    for p, (kind, _, i1) in zip(P, c["pars"]):
        p.set(param_value(kind, i1))
    U1 = np.array(t.U_full)
    for name, x in [("frozen copy", frozen), ("rewritten frozen copy", frozen_rw)]:
        d = np.abs(np.array(x.U_full) - U0).max()
        if not d <= ATOL:
            return f"{name}: U_full moved by {d:.3g} when the original's parameters were set to new values", n_rw
    for name, x in [("copy", live)] + [("+".join(s), r) for s, r in rewritten.items()]:
        d = np.abs(np.array(x.U_full) - U1).max()
        if not d <= ATOL:
            return f"{name}: U_full differs from the original by {d:.3g} after the parameters were set to new values", n_rw
    # and the other direction: a frozen copy is an ordinary circuit, changing it leaves the original alone
    mutate(frozen)
    d = np.abs(np.array(t.U_full) - U1).max()
    if not d <= 1e-12:
        return "mutating the frozen copy changed the original", n_rw
    return None, n_rw + 8


# ---------------------------------------------------------------- rendering for the model
def op9_to_coq(op):
    k = op[0]
    if k == "compress":
        return f"OCompress {core.cn(op[1])}"
    if k == "nonadj":
        return f"ONonAdj {core.cn(op[1])}"
    if k == "copyf":
        return f"OCopyFrozen {core.cn(op[1])} {core.cn(op[2])}"
    return f"Base ({cg.op_to_coq(op)})"


COQ_HEADER = ("From Coq Require Import ZArith List.\nFrom Bignums Require Import BigQ.\n"
              "From LW Require Import Base.Sx Base.Num Model.Circuit Model.World Model.Rewrite Exec.QNum Exec.RunCircuit Exec.RunC09.\n")


def decode_comp(s):
    k = s[0]
    if k == 0:
        return [0, s[1], s[2], s[3] / 1e12 if s[3] >= 0 else -1, s[4]]
    if k == 2:
        return [2, s[1], s[2] / 1e12 if s[2] >= 0 else -1]
    if k == 4:
        return [4, sorted(s[1])]
    if k == 6:
        return [6, s[1], s[2], sorted(s[3]), sorted(s[4]), [decode_comp(x) for x in s[5]]]
    return s


def decode_snap9(s):
    return [cg.decode_snapshot(s[0]), [decode_comp(x) for x in s[1]]]


def decode9(sx):
    steps = []
    for r, snap in sx[0]:
        out = {"ok": []} if r[0] == 0 else {"err": core.ERR_CODES.get(r[1], str(r[1]))}
        steps.append([out, [decode_snap9(snap[0])] if snap else []])
    world = [[cid, decode_snap9(s)] for cid, s in sx[1]]
    return [steps, world]


# ---------------------------------------------------------------- generation
def gen_swaps(rng, n, history):
    """A complete swap dictionary: transposition, cycle, with fixed-point keys, or the inverse of an earlier one."""
    r = rng.random()
    if r < 0.2 and history:
        sw = rng.choice(history)
        return [[v, k] for k, v in sw]
    if r < 0.6 or n < 3:
        a, b = rng.sample(range(n), 2)
        sw = [[a, b], [b, a]]
    else:
        ks = rng.sample(range(n), rng.randint(3, min(4, n)))
        vs = ks[1:] + ks[:1] if rng.random() < 0.6 else rng.sample(ks, len(ks))
        sw = [[a, b] for a, b in zip(ks, vs)]
    if rng.random() < 0.15:
        free = [m for m in range(n) if m not in [a for a, _ in sw]]
        if free:
            m = rng.choice(free)
            sw.insert(rng.randint(0, len(sw)), [m, m])
    return sw


def gen_comp(rng, prog, cid, n, st, kinds):
    """One construction call on circuit cid (n user-visible modes, no ancillas assumed unless via add)."""
    k = rng.choice(kinds)
    if k == "bs" and n >= 2:
        m1, m2 = rng.sample(range(n), 2)
        if rng.random() < 0.25:
            m1 = rng.randrange(n - 1)
            m2 = None if rng.random() < 0.5 else m1 + 1
        prog.append(["bs", cid, m1, m2, cg.gen_value_bs(rng), cg.gen_value_loss(rng, 0.2), rng.choice(["Rx", "H"])])
    elif k == "swaps" and n >= 2:
        sw = gen_swaps(rng, n, st["swaps"])
        st["swaps"].append(sw)
        prog.append(["swaps", cid, sw])
    elif k == "loss":
        prog.append(["loss", cid, rng.randrange(n), cg.gen_value_loss(rng, 1.0)])
    elif k == "barrier":
        prog.append(["barrier", cid, None if rng.random() < 0.3 else rng.sample(range(n), rng.randint(0, min(3, n)))])
    elif k == "unitary":
        kk = rng.randint(1, min(3, n))
        nid = st["nid"]
        st["nid"] += 1
        prog.append(["unitary", nid, kk, cg.rational_unitary(rng, kk)])
        prog.append(["add", cid, nid, rng.randint(0, n - kk), rng.random() < 0.3])
    elif k == "sub" and n >= 2:
        # a small sub-circuit, possibly heralded, added grouped or not
        nid = st["nid"]
        st["nid"] += 1
        her = rng.choice([0, 0, 1, 1, 2])
        open_modes = rng.randint(1, min(3, n))
        sn = open_modes + her
        prog.append(["new", nid, sn])
        sst = {"nid": st["nid"], "swaps": []}
        for _ in range(rng.randint(1, 3)):
            gen_comp(rng, prog, nid, sn, sst, ["bs", "bs", "ps", "swaps", "loss"])
        st["nid"] = sst["nid"]
        if her:
            ins = rng.sample(range(sn), her)
            outs = list(ins) if rng.random() < 0.5 else rng.sample(range(sn), her)
            for i, o_ in zip(ins, outs):
                prog.append(["herald", nid, rng.choice([0, 1]), i, o_])
        prog.append(["add", cid, nid, rng.randint(0, n - open_modes), rng.random() < 0.5])
    else:
        prog.append(["ps", cid, rng.randrange(n), rng.randrange(len(cg.PHV)), cg.gen_value_loss(rng, 0.15)])


def gen_rewrites(rng, prog, ids, st, n_of, k, more=True):
    """k rewrite calls on circuits of `ids`, copies joining the pool; construction calls in between."""
    ids = list(ids)
    for _ in range(k):
        cid = rng.choice(ids)
        r = rng.choice(["unpack", "compress", "compress", "nonadj", "nonadj", "copy", "copyf"])
        if r in ("copy", "copyf"):
            nid = st["nid"]
            st["nid"] += 1
            prog.append([r, nid, cid])
            n_of[nid] = n_of[cid]
            ids.append(nid)
        else:
            prog.append([r, cid])
        if more and rng.random() < 0.35:
            tgt = rng.choice(ids)
            if n_of[tgt] is not None:
                gen_comp(rng, prog, tgt, n_of[tgt], st, ["bs", "ps", "swaps", "swaps", "loss"])


def gen_flat(rng, tier):
    n = rng.randint(2, 6 if tier == "quick" else 8)
    prog = [["new", 0, n]]
    st = {"nid": 1, "swaps": []}
    kinds = ["bs", "bs", "bs", "ps", "loss", "barrier", "swaps", "swaps", "swaps", "unitary", "sub"]
    for _ in range(rng.randint(2, 9 if tier == "quick" else 20)):
        gen_comp(rng, prog, 0, n, st, kinds)
    # user-visible mode count changes once heralded sub-circuits were added; track it
    n_of = {0: n}
    gen_rewrites(rng, prog, [0], st, n_of, rng.randint(1, 4 if tier == "quick" else 6))
    return prog


def gen_chain(rng, tier):
    """Several ModeSwaps on disjoint and overlapping mode sets separated by blocking components
    (the shape on which a swap can be merged into an earlier one across components, finding N5)."""
    n = rng.randint(3, 6 if tier == "quick" else 8)
    prog = [["new", 0, n]]
    st = {"nid": 1, "swaps": []}
    for _ in range(rng.randint(3, 6 if tier == "quick" else 10)):
        a, b = rng.sample(range(n), 2)
        sw = [[a, b], [b, a]] if rng.random() < 0.75 else gen_swaps(rng, n, st["swaps"])
        st["swaps"].append(sw)
        prog.append(["swaps", 0, sw])
        for _ in range(rng.choice([0, 1, 1, 2])):
            gen_comp(rng, prog, 0, n, st, ["ps", "ps", "bs", "loss", "barrier", "unitary", "sub"])
    prog.append(["compress", 0])
    n_of = {0: n}
    gen_rewrites(rng, prog, [0], st, n_of, rng.randint(0, 3))
    return prog


def gen_n5_shape(rng, tier):
    """S_a ; blockers on a mode x ; S_b containing x (so S_b is blocked and stays) ; S_c disjoint from x and S_b
    (so S_c is unblocked seen from S_a AND seen from S_b): the shape on which the pinned
    compress_mode_swaps merged S_c twice.  Random material around it."""
    n = rng.randint(4, 6 if tier == "quick" else 8)
    prog = [["new", 0, n]]
    st = {"nid": 1, "swaps": []}
    a, b, x, y = rng.sample(range(n), 4)
    free = [m for m in range(n) if m not in (a, b)]

    def junk(k, modes):
        for _ in range(k):
            r = rng.random()
            m = rng.choice(modes)
            if r < 0.5:
                prog.append(["ps", 0, m, rng.randrange(len(cg.PHV)), None])
            elif r < 0.7:
                prog.append(["loss", 0, m, cg.gen_value_loss(rng, 1.0)])
            elif r < 0.85 and len(modes) >= 2:
                m1, m2 = rng.sample(modes, 2)
                prog.append(["bs", 0, m1, m2, cg.gen_value_bs(rng), None, rng.choice(["Rx", "H"])])
            else:
                prog.append(["barrier", 0, None])
    junk(rng.randint(0, 2), list(range(n)))
    sa = gen_swaps(rng, n, [])
    prog.append(["swaps", 0, sa])
    junk(rng.randint(0, 1), free)
    prog.append(["ps", 0, x, rng.randrange(len(cg.PHV)), None] if rng.random() < 0.7 else ["loss", 0, x, cg.gen_value_loss(rng, 1.0)])
    prog.append(["swaps", 0, [[x, y], [y, x]]])
    junk(rng.randint(0, 2), [m for m in free if m not in (x, y)] or free)
    prog.append(["swaps", 0, [[a, b], [b, a]]])
    if rng.random() < 0.5:
        prog.append(["swaps", 0, gen_swaps(rng, n, [])])
    junk(rng.randint(0, 2), list(range(n)))
    prog.append(["compress", 0])
    n_of = {0: n}
    gen_rewrites(rng, prog, [0], st, n_of, rng.randint(0, 2))
    return prog


def gen_tree9(rng, tier):
    prog = cg.gen_tree_program(rng, tier, loss_p=0.2, max_leaves=3)
    made = [op[1] for op in prog if op[0] in ("new", "unitary", "copy")]
    parents = [op[1] for op in prog if op[0] == "add"]
    ids = sorted(set(parents)) or made
    st = {"nid": max(made) + 1, "swaps": []}
    n_of = {i: None for i in made}      # visible mode counts unknown here: no further construction calls
    # rewrites preferably on the outermost parents (nested heralded groups), sometimes on leaves
    pick = ids[-2:] + ([rng.choice(made)] if rng.random() < 0.3 else [])
    gen_rewrites(rng, prog, pick, st, n_of, rng.randint(1, 4), more=False)
    return prog


def extend9(prog):
    """Sums (a + copy of a, a + a) of herald-free circuits of the program - operands and sum hold the SAME component
    objects - followed by rewrites on the sum and on the operands.  Own PRNG seeded by the program text, so the
    programs drawn from the shared stream are as before."""
    rng = random.Random(zlib.crc32(json.dumps(prog).encode()))
    if rng.random() < 0.6:
        return prog
    made = [op[1] for op in prog if op[0] in ("new", "unitary", "copy", "copyf")]
    tainted = set()
    for op in prog:
        if op[0] == "herald":
            tainted.add(op[1])
        elif op[0] == "add" and op[2] in tainted:
            tainted.add(op[1])
        elif op[0] in ("copy", "copyf") and op[2] in tainted:
            tainted.add(op[1])
    plain = [i for i in made if i not in tainted]
    if not plain:
        return prog
    nid = max(made) + 1
    a = rng.choice(plain)
    b = a
    if rng.random() < 0.6:
        b = nid
        nid += 1
        prog.append(["copy", b, a])
    z = nid
    prog.append(["plus", z, a, b] if rng.random() < 0.5 else ["plus", z, b, a])
    for _ in range(rng.randint(1, 3)):
        prog.append([rng.choice(["compress", "compress", "nonadj", "nonadj", "unpack"]), rng.choice([z, z, a, b])])
    if rng.random() < 0.4:
        prog.append([rng.choice(["copy", "copyf"]), nid + 1, z])
        prog.append([rng.choice(["compress", "nonadj"]), rng.choice([z, nid + 1])])
    return prog


def gen_tiny(rng):
    """single-mode circuits and circuits without any component: every rewrite must cope with them"""
    n = rng.choice([1, 1, 1, 2, 3])
    prog = [["new", 0, n]]
    if rng.random() < 0.7:
        for _ in range(rng.randint(1, 3)):
            k = rng.choice(["ps", "loss", "barrier", "swaps"])
            if k == "ps":
                prog.append(["ps", 0, rng.randrange(n), rng.randrange(len(cg.PHV)), cg.gen_value_loss(rng, 0.3)])
            elif k == "loss":
                prog.append(["loss", 0, rng.randrange(n), cg.gen_value_loss(rng, 1.0)])
            elif k == "barrier":
                prog.append(["barrier", 0, rng.choice([None, [], [0]])])
            else:
                prog.append(["swaps", 0, rng.choice([[], [[0, 0]], [[n - 1, n - 1]]])])
    st = {"nid": 1, "swaps": []}
    gen_rewrites(rng, prog, [0], st, {0: None}, rng.randint(2, 5), more=False)
    return prog


def parametrise(rng, prog):
    """Replace about half of the numeric values by Parameters."""
    pars = []
    prog = copy.deepcopy(prog)

    def par(kind, idx):
        table = {"bs": cg.BSV, "loss": cg.LSV, "ps": cg.PHV}[kind]
        pars.append([kind, idx if idx is not None else rng.randrange(len(table)), rng.randrange(len(table))])
        return ["par", len(pars) - 1]
    for op in prog:
        if op[0] == "bs":
            if rng.random() < 0.6:
                op[4] = par("bs", op[4])
            if op[5] is not None and rng.random() < 0.5:
                op[5] = par("loss", op[5])
        elif op[0] == "ps":
            if rng.random() < 0.6:
                op[3] = par("ps", op[3])
            if op[4] is not None and rng.random() < 0.5:
                op[4] = par("loss", op[4])
        elif op[0] == "loss" and rng.random() < 0.6:
            op[3] = par("loss", op[3])
    return prog, pars


class C09:
    ID = "C09"
    RULE = ("random programs: flat specs (2-8 modes) with every component kind, beam splitters on non-adjacent and reversed modes, "
            "many ModeSwaps (transpositions, cycles, fixed-point keys, inverses of earlier ones), Unitary blocks, plain and heralded "
            "sub-circuits added grouped/ungrouped; swap chains separated by blocking components; circgen trees (nested heralded groups); "
            "each followed by 1-6 rewrite calls (unpack_groups, compress_mode_swaps, remove_non_adjacent_bs, copy, frozen copy) interleaved "
            "with further construction calls on originals and copies; sums a + copy(a) / a + a followed by rewrites on the sum and on the "
            "operands; single-mode circuits and circuits without components; after every rewrite EVERY other live circuit (copies, sums, "
            "parents, sub-circuits; for copies also the source) must be as before; Parameter-carrying variants for the frozen-copy oracle. "
            "Non-trivial = at least one rewrite that changed the component list or a copy that was later modified; "
            "distinct = distinct program JSON")
    CHUNK = 26
    TRUSTED = ["Python floats vs exact rationals compared at 1e-9",
               "independence is tested by mutation through the public API on deep-copied clones (copy.deepcopy is trusted to clone)"]
    ASSUMPTIONS = ["heralded transition amplitudes are a function of (U_full, heralds, input): checked directly with the Simulator only for inputs of 1-2 photons on circuits with <= 4 open modes",
                   "Parameters appear only in the implementation-side oracle (the model runs literal values); C10 covers parameters"]

    def generate(self, rng, tier):
        n = 400 if tier == "quick" else 3000
        cases = []
        for i in range(n):
            r = i % 10
            if r < 4:
                cases.append(dict(kind="flat", prog=gen_flat(rng, tier)))
            elif r < 6:
                cases.append(dict(kind="chain", prog=gen_chain(rng, tier)))
            elif r < 7:
                cases.append(dict(kind="chain", prog=gen_n5_shape(rng, tier)))
            elif r < 9:
                cases.append(dict(kind="tree", prog=gen_tree9(rng, tier)))
            else:
                rr = rng.random()
                base = gen_flat(rng, tier) if rr < 0.5 else (gen_chain(rng, tier) if rr < 0.8 else gen_n5_shape(rng, tier))
                base = [(["copy"] + op[1:]) if op[0] == "copyf" else op for op in base]
                prog, pars = parametrise(rng, base)
                cases.append(dict(kind="param", prog=prog, pars=pars, target=0))
        for c in cases:
            if c["kind"] != "param":
                c["prog"] = extend9(c["prog"])
        for i in range(n // 20):
            cases.append(dict(kind="flat", prog=gen_tiny(rng)))
        return cases

    def impl(self, c):
        if c["kind"] == "param":
            fail, n_rw = run_param_case(c)
            return [[], [], {"oracle": fail, "rewrites": n_rw, "changed": len(c["pars"])}]
        obs, pool, fail, info = run_impl9(c["prog"])
        obs.append({"oracle": fail, "rewrites": info["rewrites"], "changed": info["changed"], "effects": info["effects"]})
        return obs

    def coq_header(self):
        return COQ_HEADER

    def coq_expr(self, c):
        if c["kind"] == "param":
            return "SL nil"
        return "run_prog9 " + core.clist("(" + op9_to_coq(o) + ")" for o in c["prog"])

    def decode(self, c, sx):
        if c["kind"] == "param":
            return None
        return decode9(sx)

    def compare(self, c, a, b):
        if c["kind"] == "param":
            return None
        return core.approx_equal(a[:2], b)

    def oracle(self, c, obs):
        return obs[2]["oracle"]

    def nontrivial(self, c, obs):
        return bool(obs[2]["changed"])

    def stats(self, cases, recs):
        ops = Counter()
        kinds = Counter()
        comps = Counter()
        for r in recs:
            kinds[r["case"]["kind"]] += 1
            for op in r["case"]["prog"]:
                ops[op[0]] += 1
            if isinstance(r["impl"], list) and r["impl"][1]:
                for _, snap in r["impl"][1]:
                    for s in snap[1]:
                        comps[s[0]] += 1
        eff = Counter()
        for r in recs:
            if not (isinstance(r["impl"], list) and len(r["impl"]) == 3):
                continue
            for kind, lb, la, nsw, grp, changed in r["impl"][2].get("effects", []):
                eff[kind + "_calls"] += 1
                eff[kind + "_calls_that_changed_the_spec"] += bool(changed)
                if kind == "compress":
                    eff["swaps_merged"] += lb - la
                    eff["compress_merged_and_>=2_swaps_left"] += (lb > la and nsw >= 2)
                if kind == "unpack":
                    eff["unpack_calls_with_groups"] += bool(grp)
        return {"ops": dict(ops), "case_kinds": dict(kinds), "rewrite_effects": dict(eff),
                "final_component_kinds(0=BS,1=PS,2=Loss,3=Barrier,4=Swaps,5=Unitary,6=Group)": dict(comps)}

    def shrink(self, c):
        prog = c["prog"]
        for i in range(len(prog) - 1, 0, -1):
            op = prog[i]
            if op[0] in ("new", "unitary", "copy", "copyf"):
                cid = op[1]
                if any(o is not op and (cid in o[1:3] if o[0] in ("add", "copy", "copyf", "plus") else o[1] == cid) for o in prog):
                    continue
            d = copy.deepcopy(c)
            del d["prog"][i]
            d.pop("_corpus", None)
            yield d

    def signature(self, c, rec):
        return None


PROP = C09()

if __name__ == "__main__":
    sys.exit(core.main(PROP))
