"""C02 — adding a sub-circuit wires it in order; heralded modes become private ancillas."""
from __future__ import annotations

import copy
import itertools
import sys
from collections import Counter

import numpy as np

import core
import circgen as cg


def _u(snap):
    dim, rows = snap[5]["ok"]
    return dim, np.array([[complex(x[0], x[1]) for x in row] for row in rows])


def wiring_reference(P, S, R, u):
    """Independent statement of 'correctly wired' (DESIGN C02) on snapshots
    (n, input_modes, in_heralds, out_heralds, internal, U_full) of the parent
    before (P), the sub-circuit (S) and the parent after (R); u = user mode.
    Returns None if some placement of the new ancillas explains R, else text."""
    nP, nS, nR = P[0], S[0], R[0]
    hin_S, hout_S = S[2], S[3]
    h = len(hin_S)
    if nR != nP + h:
        return f"result has {nR} modes, expected {nP}+{h}"
    anc_P = set(P[4])
    vis_P = [m for m in range(nP) if m not in anc_P]
    in_keys = [k for k, _ in hin_S]
    out_keys = [k for k, _ in hout_S]
    open_in = [m for m in range(nS) if m not in in_keys]
    open_out = [m for m in range(nS) if m not in out_keys]
    k = nS - h
    if not (0 <= u and u + k <= len(vis_P)):
        return "INTERNAL: reference called on an addition that does not fit"
    if "ok" not in R[5] or "ok" not in P[5] or "ok" not in S[5]:
        return f"a unitary is unavailable: P={P[5] if 'err' in P[5] else 'ok'} S={S[5] if 'err' in S[5] else 'ok'} R={R[5] if 'err' in R[5] else 'ok'}"
    dP, UP = _u(P)
    dS, US = _u(S)
    dR, UR = _u(R)
    lP, lS = dP - nP, dS - nS
    if dR != nR + lP + lS:
        return f"U_full dimension {dR}, expected {nR}+{lP}+{lS}"
    anc_R = sorted(R[4])
    if len(anc_R) != len(anc_P) + h:
        return f"ancilla count {len(anc_R)} != {len(anc_P)}+{h}"
    hinR, houtR = dict(map(tuple, R[2])), dict(map(tuple, R[3]))
    hinP, houtP = dict(map(tuple, P[2])), dict(map(tuple, P[3]))
    why = "no placement of the new ancillas among the result's ancillas explains the result"

    def try_candidate(new, loc):
        nonlocal why
        rest = [m for m in range(nR) if m not in new]
        if len(rest) != nP:
            return False
        old = {i: rest[i] for i in range(nP)}          # order-preserving
        if set(old[a] for a in anc_P) | set(new) != set(anc_R):
            return False
        if any(hinR.get(old[m]) != v for m, v in hinP.items()) or any(houtR.get(old[m]) != v for m, v in houtP.items()):
            why = "heralds of the parent are not transported order-preservingly"
            return False
        if any(hinR.get(loc[j]) != hin_S[j][1] or houtR.get(loc[j]) != hin_S[j][1] for j in range(h)):
            return False
        if len(hinR) != len(hinP) + h or len(houtR) != len(houtP) + h:
            return False
        phi_in = {open_in[j]: old[vis_P[u + j]] for j in range(k)}
        phi_out = {open_out[j]: old[vis_P[u + j]] for j in range(k)}
        for j in range(h):
            phi_in[in_keys[j]] = loc[j]
            phi_out[out_keys[j]] = loc[j]
        for j in range(lS):
            phi_in[nS + j] = nR + lP + j
            phi_out[nS + j] = nR + lP + j
        iota = np.eye(dR, dtype=complex)
        mapP = [old[i] for i in range(nP)] + [nR + j for j in range(lP)]
        iota[np.ix_(mapP, mapP)] = UP
        E = np.eye(dR, dtype=complex)
        E[np.ix_([phi_out[a] for a in range(dS)], [phi_in[b] for b in range(dS)])] = US
        M = E @ iota
        if np.abs(M - UR).max() <= 1e-9:
            return True
        why = f"U_full differs from (sub-circuit embedded under the wiring) x (parent) for every ancilla placement tried (max dev {np.abs(M - UR).max():.3g})"
        return False

    # fast path: the placement lightworks documents through the order of its herald dictionary
    if h <= len(R[2]):
        prim = [kk for kk, _ in R[2]][len(R[2]) - h:]
        if len(set(prim)) == h and try_candidate(tuple(sorted(prim)), tuple(prim)):
            return None
    # otherwise every placement of the new ancillas (the property leaves it free)
    budget = 6000
    for new in itertools.combinations(anc_R, h):
        for loc in itertools.permutations(new):
            budget -= 1
            if budget < 0:
                return why + " (placement search truncated)"
            if try_candidate(new, loc):
                return None
    return why


class C02:
    ID = "C02"
    RULE = ("random trees of circuits: leaves (primitives, Unitary blocks, 0-3 heralds in any declaration order, input != output herald modes, "
            "0-2 photons), parents with primitives before/between/after additions, grouped and ungrouped additions in any order, nesting "
            "depth <= 3, copy/unpack, oversize and out-of-range additions; every accepted add is checked against the wiring reference. "
            "Non-trivial = an accepted add of a sub-circuit with >= 1 herald into a parent that already has >= 1 ancilla, or depth >= 2; "
            "distinct = distinct program JSON")
    COQ_TARGETS = ["theories/Exec/RunCircuit.vo"]
    CHUNK = 40
    TRUSTED = ["Python floats vs exact rationals compared at 1e-9"]
    ASSUMPTIONS = ["the relative placement of new and old ancillas is left free by the property: the oracle accepts any placement"]

    def generate(self, rng, tier):
        n = 240 if tier == "quick" else 5000
        cases = []
        for i in range(n):
            bad = 0.2 if i % 5 == 4 else 0.0
            cases.append(dict(kind="tree", prog=cg.gen_tree_program(rng, tier, bad=bad)))
        return cases

    def impl(self, c):
        self._fail = None
        self._nontrivial = False

        def on_step(pool, op, out, before):
            if op[0] != "add" or self._fail:
                return
            _, cid, sub, u, group = op
            P, S = before[cid], before[sub]
            nP_vis = P[0] - len(P[4])
            k = S[0] - len(S[2])
            fits = 0 <= u < nP_vis and u + k <= nP_vis
            if "err" in out:
                if fits:
                    self._fail = f"add rejected ({out['err']}) although it fits: parent visible={nP_vis}, mode={u}, open modes={k}"
                return
            if not fits:
                self._fail = f"add accepted although it does not fit: parent visible={nP_vis}, mode={u}, open modes={k}"
                return
            R = cg.snapshot(pool[cid])
            if len(S[2]) >= 1 and len(P[4]) >= 1:
                self._nontrivial = True
            msg = wiring_reference(P, S, R, u)
            if msg:
                self._fail = f"op {op}: {msg}"

        obs, _ = cg.run_impl(c["prog"], on_step=on_step, want=lambda op: (op[1], op[2]) if op[0] == "add" else ())
        obs.append({"wiring": self._fail, "nontrivial": self._nontrivial})
        return obs

    def coq_header(self):
        return cg.COQ_HEADER

    def coq_expr(self, c):
        return cg.prog_to_coq(c["prog"])

    def decode(self, c, sx):
        return cg.decode_world(sx)

    def compare(self, c, a, b):
        return core.approx_equal(a[:2], b)

    def oracle(self, c, obs):
        return obs[2]["wiring"]

    def nontrivial(self, c, obs):
        return obs[2]["nontrivial"]

    def stats(self, cases, recs):
        ops = Counter()
        errs = Counter()
        adds = Counter()
        for r in recs:
            if not isinstance(r["impl"], list):
                continue
            for op, out in zip(r["case"]["prog"], r["impl"][0]):
                ops[op[0]] += 1
                if "err" in out:
                    errs[op[0] + ":" + out["err"]] += 1
                elif op[0] == "add":
                    adds["grouped" if op[4] else "ungrouped"] += 1
        return {"ops": dict(ops), "rejected": dict(errs), "accepted_adds": dict(adds)}

    def shrink(self, c):
        prog = c["prog"]
        for i in range(len(prog) - 1, -1, -1):
            d = copy.deepcopy(c)
            op = d["prog"][i]
            if op[0] in ("new", "unitary"):
                cid = op[1]
                if any((o[0] == "add" and cid in (o[1], o[2])) or (o[0] not in ("add",) and o is not op and o[1] == cid) or (o[0] in ("copy", "plus") and cid in o[2:]) for o in d["prog"]):
                    continue
            del d["prog"][i]
            yield d

    def signature(self, c, rec):
        return None


PROP = C02()

if __name__ == "__main__":
    sys.exit(core.main(PROP))
