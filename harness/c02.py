"""C02 — adding a sub-circuit wires it in order; heralded modes become private ancillas."""
from __future__ import annotations

import copy
import itertools
import json
import math
import random
import sys
import zlib
from collections import Counter

import numpy as np

import core
import circgen as cg

import lightworks as lw
from lightworks import emulator


def _u(snap):
    dim, rows = snap[5]["ok"]
    return dim, np.array([[complex(x[0], x[1]) for x in row] for row in rows])


def wiring_reference(P, S, R, u):
    """Independent statement of 'correctly wired' (DESIGN C02) on snapshots
    (n, input_modes, in_heralds, out_heralds, internal, U_full) of the parent
    before (P), the sub-circuit (S) and the parent after (R); u = user mode.
    Returns None if some placement of the new ancillas explains R, else text."""
    nP, nS, nR = P[0], S[0], R[0]
    hin_S, hout_S = S[2], S[3]
    h = len(hin_S)
    if nR != nP + h:
        return f"result has {nR} modes, expected {nP}+{h}"
    anc_P = set(P[4])
    vis_P = [m for m in range(nP) if m not in anc_P]
    in_keys = [k for k, _ in hin_S]
    out_keys = [k for k, _ in hout_S]
    open_in = [m for m in range(nS) if m not in in_keys]
    open_out = [m for m in range(nS) if m not in out_keys]
    k = nS - h
    if not (0 <= u and u + k <= len(vis_P)):
        return "INTERNAL: reference called on an addition that does not fit"
    if "ok" not in R[5] or "ok" not in P[5] or "ok" not in S[5]:
        return f"a unitary is unavailable: P={P[5] if 'err' in P[5] else 'ok'} S={S[5] if 'err' in S[5] else 'ok'} R={R[5] if 'err' in R[5] else 'ok'}"
    dP, UP = _u(P)
    dS, US = _u(S)
    dR, UR = _u(R)
    lP, lS = dP - nP, dS - nS
    if dR != nR + lP + lS:
        return f"U_full dimension {dR}, expected {nR}+{lP}+{lS}"
    anc_R = sorted(R[4])
    if len(anc_R) != len(anc_P) + h:
        return f"ancilla count {len(anc_R)} != {len(anc_P)}+{h}"
    hinR, houtR = dict(map(tuple, R[2])), dict(map(tuple, R[3]))
    hinP, houtP = dict(map(tuple, P[2])), dict(map(tuple, P[3]))
    why = "no placement of the new ancillas among the result's ancillas explains the result"

    def try_candidate(new, loc):
        nonlocal why
        rest = [m for m in range(nR) if m not in new]
        if len(rest) != nP:
            return False
        old = {i: rest[i] for i in range(nP)}          # order-preserving
        if set(old[a] for a in anc_P) | set(new) != set(anc_R):
            return False
        if any(hinR.get(old[m]) != v for m, v in hinP.items()) or any(houtR.get(old[m]) != v for m, v in houtP.items()):
            why = "heralds of the parent are not transported order-preservingly"
            return False
        if any(hinR.get(loc[j]) != hin_S[j][1] or houtR.get(loc[j]) != hin_S[j][1] for j in range(h)):
            return False
        if len(hinR) != len(hinP) + h or len(houtR) != len(houtP) + h:
            return False
        phi_in = {open_in[j]: old[vis_P[u + j]] for j in range(k)}
        phi_out = {open_out[j]: old[vis_P[u + j]] for j in range(k)}
        for j in range(h):
            phi_in[in_keys[j]] = loc[j]
            phi_out[out_keys[j]] = loc[j]
        for j in range(lS):
            phi_in[nS + j] = nR + lP + j
            phi_out[nS + j] = nR + lP + j
        iota = np.eye(dR, dtype=complex)
        mapP = [old[i] for i in range(nP)] + [nR + j for j in range(lP)]
        iota[np.ix_(mapP, mapP)] = UP
        E = np.eye(dR, dtype=complex)
        E[np.ix_([phi_out[a] for a in range(dS)], [phi_in[b] for b in range(dS)])] = US
        M = E @ iota
        if np.abs(M - UR).max() <= 1e-9:
            return True
        why = f"U_full differs from (sub-circuit embedded under the wiring) x (parent) for every ancilla placement tried (max dev {np.abs(M - UR).max():.3g})"
        return False

    # fast path: the placement lightworks documents through the order of its herald dictionary
    if h <= len(R[2]):
        prim = [kk for kk, _ in R[2]][len(R[2]) - h:]
        if len(set(prim)) == h and try_candidate(tuple(sorted(prim)), tuple(prim)):
            return None
    # otherwise every placement of the new ancillas (the property leaves it free)
    budget = 6000
    for new in itertools.combinations(anc_R, h):
        for loc in itertools.permutations(new):
            budget -= 1
            if budget < 0:
                return why + " (placement search truncated)"
            if try_candidate(new, loc):
                return None
    return why

def plus_reference(A, B, Z):
    """z = a + b on herald-free circuits of equal size: the components of a, then those of b; loss modes of a, then of b."""
    n = A[0]
    if Z[0] != n or Z[1] != n or Z[2] or Z[3] or Z[4]:
        return f"the sum has n_modes {Z[0]}, input size {Z[1]}, heralds {Z[2]}/{Z[3]}, ancillas {Z[4]}; expected {n} plain modes"
    if "ok" not in A[5] or "ok" not in B[5] or "ok" not in Z[5]:
        if "ok" in A[5] and "ok" in B[5]:
            return f"the sum of two circuits that compile does not compile: {Z[5]}"
        return None
    dA, UA = _u(A)
    dB, UB = _u(B)
    dZ, UZ = _u(Z)
    lA, lB = dA - n, dB - n
    if dZ != n + lA + lB:
        return f"U_full of the sum has dimension {dZ}, expected {n}+{lA}+{lB}"
    iota = np.eye(dZ, dtype=complex)
    iota[:dA, :dA] = UA
    E = np.eye(dZ, dtype=complex)
    idx = list(range(n)) + [n + lA + j for j in range(lB)]
    E[np.ix_(idx, idx)] = UB
    M = E @ iota
    if np.abs(M - UZ).max() > 1e-9:
        return f"U_full of a + b is not (b on the modes and its own loss modes) x (a) (max dev {np.abs(M - UZ).max():.3g})"
    return None


def permanent(M):
    k = M.shape[0]
    if k == 0:
        return 1.0 + 0j
    tot = 0j
    for p in itertools.permutations(range(k)):
        t = 1.0 + 0j
        for i, j in enumerate(p):
            t *= M[i, j]
            if t == 0:
                break
        tot += t
    return tot


def fock_amplitude(U, full_in, full_out):
    """<out| U |in> for occupation lists over the modes of U (bosonic: permanent of the repeated-rows/columns
    submatrix over the square roots of the factorials)."""
    if sum(full_in) != sum(full_out):
        return 0j
    cols = [m for m, k in enumerate(full_in) for _ in range(k)]
    rows = [m for m, k in enumerate(full_out) for _ in range(k)]
    norm = math.sqrt(math.prod(math.factorial(k) for k in full_in) * math.prod(math.factorial(k) for k in full_out))
    return permanent(U[np.ix_(rows, cols)]) / norm


def _with_heralds(state, heralds, n):
    out, it = [], iter(state)
    for m in range(n):
        out.append(heralds[m] if m in heralds else next(it))
    return out


def amplitude_check(c, rng, max_photons=5, max_outputs=400):
    """Simulator amplitudes of a finished circuit against the permanent formula on its U_full with the herald photons
    placed on the heralded modes (input and output dictionaries taken from the circuit, which the wiring oracle has
    tied to the parts).  None | text | "skipped"."""
    her = c.heralds
    hin, hout = her["input"], her["output"]
    n = c.n_modes
    k = c.input_modes
    if k != n - len(hin) or len(hin) != len(hout):
        return f"input_modes = {k} with {n} modes and {len(hin)} input / {len(hout)} output heralds"
    try:
        U = np.array(c.U_full)
    except Exception:  # noqa: BLE001
        return "skipped"
    nh = sum(hin.values())
    room = max_photons - nh
    if k == 0 or room < 0 or sum(hin.values()) != sum(hout.values()):
        return "skipped"
    nph = rng.choice([p for p in (0, 1, 1, 2, 2, 3) if p <= room])
    occ = [0] * k
    for _ in range(nph):
        occ[rng.randrange(k)] += 1
    if math.comb(k + nph - 1, nph) > max_outputs:
        return "skipped"
    res = emulator.Simulator(c).simulate(lw.State(occ))
    amps = np.array(res.array)
    outs = [list(o.s) for o in res.outputs]
    if amps.shape != (1, len(outs)) or len(outs) != math.comb(k + nph - 1, nph) or len({tuple(o) for o in outs}) != len(outs):
        return f"Simulator returned {amps.shape} amplitudes for {len(outs)} outputs; {math.comb(k + nph - 1, nph)} distinct outputs expected"
    full_in = _with_heralds(occ, hin, n) + [0] * (U.shape[0] - n)
    for j, o in enumerate(outs):
        if len(o) != k or sum(o) != nph:
            return f"Simulator output {o} for input {occ}"
        full_out = _with_heralds(o, hout, n) + [0] * (U.shape[0] - n)
        ref = fock_amplitude(U, full_in, full_out)
        if not abs(ref - complex(amps[0, j])) <= 1e-9:
            return (f"heralded amplitude {occ} -> {o} (heralds in {hin}, out {hout}): Simulator {complex(amps[0, j]):.6g}, "
                    f"permanent of U_full with the herald photons on the ancillas {ref:.6g}")
    return None


# ---------------------------------------------------------------- program post-processing (sums, larger herald numbers)
def scan(prog):
    """Per circuit id: visible modes, declared + inherited herald count, loss elements (estimates ignoring rejections)."""
    info = {}
    for o in prog:
        k = o[0]
        if k == "new":
            info[o[1]] = dict(vis=o[2], her=0, anc=0, nls=0)
        elif k == "unitary":
            info[o[1]] = dict(vis=o[2], her=0, anc=0, nls=0)
        elif k in ("copy", "copyf") and o[2] in info:
            info[o[1]] = dict(info[o[2]])
        elif k == "plus" and o[2] in info and o[3] in info:
            info[o[1]] = dict(vis=info[o[2]]["vis"], her=0, anc=0, nls=info[o[2]]["nls"] + info[o[3]]["nls"])
        elif o[1] not in info:
            continue
        elif k == "herald":
            info[o[1]]["her"] += 1
        elif k == "add" and o[2] in info:
            info[o[1]]["anc"] += info[o[2]]["her"] + info[o[2]]["anc"]
            info[o[1]]["nls"] += info[o[2]]["nls"]
        elif k == "loss":
            info[o[1]]["nls"] += 1
        elif k == "bs" and o[5] is not None:
            info[o[1]]["nls"] += 2
        elif k == "ps" and o[4] is not None:
            info[o[1]]["nls"] += 1
    return info


def extend_program(prog, tier):
    """Deterministic in the program (own PRNG seeded by its text, so the shared generator stream is untouched):
    some herald photon numbers raised to 3; sums a + b / a + a of herald-free circuits (and a rejected sum), edited
    afterwards, heralded, and added into a parent that already has ancillas."""
    rng = random.Random(zlib.crc32(json.dumps(prog).encode()))
    for o in prog:
        if o[0] == "herald" and o[2] == 2 and rng.random() < 0.3:
            o[2] = 3
    if rng.random() < 0.45:
        return prog
    info = scan(prog)
    nid = max(info) + 1
    cap_full, cap_dim = (12, 18) if tier == "quick" else (16, 24)
    plain = [i for i, x in info.items() if x["her"] == 0 and x["anc"] == 0]
    parents = [i for i, x in info.items() if x["anc"] >= 1]
    for _ in range(rng.randint(1, 2)):
        if not plain:
            break
        a = rng.choice(plain)
        same = [i for i in plain if info[i]["vis"] == info[a]["vis"]]
        r = rng.random()
        if r < 0.12 and len(info) >= 2:
            her = [i for i in info if i != a and info[i]["vis"] == info[a]["vis"] and info[i]["her"] + info[i]["anc"] > 0]
            b = rng.choice(her or [i for i in info if i != a])     # rejected: a herald is present, or another size
        elif r < 0.3:
            b = a
        else:
            b = rng.choice(same)
        if info[a]["nls"] + info[b]["nls"] + info[a]["vis"] > cap_dim:
            continue
        z = nid
        nid += 1
        prog.append(["plus", z, a, b])
        ok = info[b]["her"] == 0 and info[b]["anc"] == 0 and info[b]["vis"] == info[a]["vis"]
        if not ok:
            continue
        info[z] = dict(vis=info[a]["vis"], her=0, anc=0, nls=info[a]["nls"] + info[b]["nls"])
        nv = info[z]["vis"]
        if rng.random() < 0.5:
            prog.append(cg.gen_primitive(rng, rng.choice([z, a]), nv, loss_p=0.0))
        if nv >= 2 and rng.random() < 0.5:
            i = rng.randrange(nv)
            o_ = i if rng.random() < 0.5 else rng.randrange(nv)
            prog.append(["herald", z, rng.choice([0, 1, 1, 2]), i, None if (i == o_ and rng.random() < 0.5) else o_])
            info[z]["her"] += 1
        k = nv - info[z]["her"]
        fits = [p for p in parents if info[p]["vis"] >= k and info[p]["vis"] + info[p]["anc"] + info[z]["her"] <= cap_full
                and info[p]["vis"] + info[p]["anc"] + info[z]["her"] + info[p]["nls"] + info[z]["nls"] <= cap_dim]
        if fits and rng.random() < 0.8:
            p_ = rng.choice(fits)
            prog.append(["add", p_, z, rng.randint(0, info[p_]["vis"] - k), rng.random() < 0.4])
            info[p_]["anc"] += info[z]["her"]
            info[p_]["nls"] += info[z]["nls"]
            if rng.random() < 0.5:
                prog.append(cg.gen_primitive(rng, p_, info[p_]["vis"], loss_p=0.0))
        plain.append(z) if info[z]["her"] == 0 else None
    return prog


def gen_dense(rng):
    """Small scope, densely: a parent of 1-3 visible modes with 0-3 ancillas already in place (created by fully heralded
    one-mode circuits and half heralded two-mode circuits at random positions, so ancillas sit before, between and after
    the visible modes, also next to each other), one test circuit of 1-4 modes carrying a generic unitary and 0-2 heralds
    (input != output modes, any declaration order), added to a fresh copy of the parent at EVERY position where it fits."""
    prog = []
    nv = rng.randint(1, 3)
    P = 0
    nid = 1
    prog.append(["new", P, nv])
    for _ in range(rng.randint(0, 2)):
        prog.append(cg.gen_primitive(rng, P, nv, loss_p=0.1))
    for _ in range(rng.randint(0, 3)):
        a = nid
        nid += 1
        if rng.random() < 0.5:
            prog += [["new", a, 1], ["ps", a, 0, rng.randrange(len(cg.PHV)), None], ["herald", a, rng.choice([0, 1]), 0, None]]
        else:
            i, o = rng.randrange(2), rng.randrange(2)
            prog += [["new", a, 2], ["bs", a, 0, 1, rng.randrange(len(cg.BSV)), None, rng.choice(["Rx", "H"])],
                     ["herald", a, rng.choice([0, 1]), i, None if (i == o and rng.random() < 0.5) else o]]
        prog.append(["add", P, a, rng.randrange(nv), rng.random() < 0.5])
        if rng.random() < 0.4:
            prog.append(cg.gen_primitive(rng, P, nv, loss_p=0.0))
    nS = rng.randint(1, min(4, nv + 2))
    h = rng.randint(max(0, nS - nv), min(2, nS))
    S = nid
    nid += 1
    if rng.random() < 0.7:
        prog.append(["unitary", S, nS, cg.rational_unitary(rng, nS)])
    else:
        prog.append(["new", S, nS])
        for _ in range(rng.randint(1, 3)):
            prog.append(cg.gen_primitive(rng, S, nS, loss_p=0.2))
    ins = rng.sample(range(nS), h)
    outs = list(ins) if rng.random() < 0.4 else rng.sample(range(nS), h)
    for i, o in zip(ins, outs):
        prog.append(["herald", S, rng.choice([0, 1, 1, 2]), i, None if (i == o and rng.random() < 0.5) else o])
    k = nS - h
    for u in (range(nv - k + 1) if k >= 1 else range(nv)):
        C = nid
        nid += 1
        prog += [["copy", C, P], ["add", C, S, u, rng.random() < 0.4]]
        if rng.random() < 0.5:
            prog.append(["ps", C, rng.randrange(nv), rng.randrange(len(cg.PHV)), None])
    return prog


# ---------------------------------------------------------------- execution with varied call forms
def apply2(pool, op, frng):
    """circgen.apply_op, except that add / herald / barrier are called through one of their equivalent forms
    (defaults omitted, keywords, a name for the group)."""
    k = op[0]
    if k == "add":
        _, cid, sub, mode, group = op
        par, s = pool[cid], pool[sub]
        forms = ["full", "kw"]
        if not group:
            forms.append("nogroup")
            if mode == 0:
                forms += ["bare", "bare"]
        else:
            forms.append("named")
        f = frng.choice(forms)
        if f == "bare":
            par.add(s)
        elif f == "nogroup":
            par.add(s, mode)
        elif f == "kw":
            par.add(circuit=s, group=group, mode=mode)
        elif f == "named":
            par.add(s, mode, True, frng.choice(["", "sub", "a long name"]))
        else:
            par.add(s, mode, group=group)
    elif k == "herald":
        _, cid, n, im, om = op
        f = frng.randrange(3)
        if f == 0:
            pool[cid].herald(n_photons=n, input_mode=im, output_mode=om)
        elif f == 1 and om is None:
            pool[cid].herald(n, im)
        else:
            pool[cid].herald(n, im, om)
    else:
        cg.apply_op(pool, op)


def run_impl2(prog, fseed, on_step, want):
    frng = random.Random(fseed)
    pool = {}
    outcomes = []
    for op in prog:
        ids = [i for i in want(op) if i in pool]
        before = {cid: cg.snapshot(pool[cid]) for cid in ids}
        try:
            apply2(pool, op, frng)
            out = {"ok": []}
        except NotImplementedError:
            out = {"err": "OtherError"}
        except Exception as e:  # noqa: BLE001
            out = {"err": cg.err_name_for(op, e)}
        outcomes.append(out)
        on_step(pool, op, out, before)
    world = [[cid, cg.snapshot(pool[cid])] for cid in pool]
    return [outcomes, world], pool


class C02:
    ID = "C02"
    RULE = ("random trees of circuits: leaves (primitives, Unitary blocks, 0-3 heralds in any declaration order, input != output herald modes, "
            "0-2 photons), parents with primitives before/between/after additions, grouped and ungrouped additions in any order, nesting "
            "depth <= 3, copy/unpack, oversize and out-of-range additions; dense small scope (parent of 1-3 visible modes with 0-3 ancillas "
            "anywhere, one test circuit of 1-4 modes with 0-2 heralds added at every position that fits); sums a + b / a + a of herald-free circuits (also rejected ones) that are "
            "edited, heralded and added into parents with ancillas, herald photon numbers 0-3, add/herald called through their equivalent "
            "forms (defaults omitted, keywords, group names); every accepted add is checked against the wiring reference, every accepted sum "
            "against the product of its operands, and the Simulator amplitudes (0-3 input photons) of the last heralded circuits against the "
            "permanent formula on U_full with the herald photons on the ancillas. "
            "Non-trivial = an accepted add of a sub-circuit with >= 1 herald into a parent that already has >= 1 ancilla, or depth >= 2; "
            "distinct = distinct program JSON")
    COQ_TARGETS = ["theories/Exec/RunCircuit.vo"]
    CHUNK = 40
    TRUSTED = ["Python floats vs exact rationals compared at 1e-9"]
    ASSUMPTIONS = ["the relative placement of new and old ancillas is left free by the property: the oracle accepts any placement"]

    def generate(self, rng, tier):
        n = 240 if tier == "quick" else 5000
        cases = []
        for i in range(n):
            bad = 0.2 if i % 5 == 4 else 0.0
            prog = cg.gen_tree_program(rng, tier, bad=bad)
            # sums, herald numbers up to 3 (drawn from a PRNG seeded by the program text: the stream above is unchanged);
            # fseed selects the call forms (defaults omitted / keywords / group names) and the inputs of the amplitude check
            cases.append(dict(kind="tree", prog=extend_program(prog, tier), fseed=zlib.crc32(json.dumps(prog).encode()) % 10**6))
        for i in range(n // 6):
            prog = gen_dense(rng)
            cases.append(dict(kind="tree", prog=prog, fseed=zlib.crc32(json.dumps(prog).encode()) % 10**6))
        return cases

    def impl(self, c):
        self._fail = None
        self._nontrivial = False

        sums = [0]

        def on_step(pool, op, out, before):
            if self._fail:
                return
            if op[0] == "plus":
                _, z, a, b = op
                if a not in before or b not in before:
                    return
                A, B = before[a], before[b]
                legal = A[0] == B[0] and not A[2] and not B[2]
                if "err" in out:
                    if legal:
                        self._fail = f"op {op}: a + b rejected ({out['err']}) although both have {A[0]} modes and no heralds"
                    return
                if not legal:
                    self._fail = f"op {op}: a + b accepted although the sizes differ or a herald is present ({A[0]} modes, heralds {A[2]}; {B[0]} modes, heralds {B[2]})"
                    return
                sums[0] += 1
                msg = plus_reference(A, B, cg.snapshot(pool[z]))
                if msg:
                    self._fail = f"op {op}: {msg}"
                return
            if op[0] != "add":
                return
            _, cid, sub, u, group = op
            if cid not in before or sub not in before:
                return
            P, S = before[cid], before[sub]
            nP_vis = P[0] - len(P[4])
            k = S[0] - len(S[2])
            fits = 0 <= u < nP_vis and u + k <= nP_vis
            if "err" in out:
                if fits:
                    self._fail = f"add rejected ({out['err']}) although it fits: parent visible={nP_vis}, mode={u}, open modes={k}"
                return
            if not fits:
                self._fail = f"add accepted although it does not fit: parent visible={nP_vis}, mode={u}, open modes={k}"
                return
            R = cg.snapshot(pool[cid])
            if len(S[2]) >= 1 and len(P[4]) >= 1:
                self._nontrivial = True
            msg = wiring_reference(P, S, R, u)
            if msg:
                self._fail = f"op {op}: {msg}"

        want = lambda op: (op[1], op[2]) if op[0] == "add" else ((op[2], op[3]) if op[0] == "plus" else ())  # noqa: E731
        obs, pool = run_impl2(c["prog"], c.get("fseed", 0), on_step, want)
        # the heralded transition amplitudes of what was built: Simulator against the permanent formula on U_full
        checked = skipped = 0
        if self._fail is None:
            arng = random.Random(c.get("fseed", 0) + 1)
            ids = [cid for cid in pool if pool[cid].heralds["input"]]
            for cid in ids[-3:]:
                try:
                    msg = amplitude_check(pool[cid], arng)
                except Exception as e:  # noqa: BLE001
                    msg = f"Simulator raised {type(e).__name__}: {e}"
                if msg == "skipped":
                    skipped += 1
                elif msg:
                    self._fail = f"circuit {cid} (n_modes {pool[cid].n_modes}, ancillas {sorted(pool[cid]._internal_modes)}): {msg}"
                    break
                else:
                    checked += 1
        obs.append({"wiring": self._fail, "nontrivial": self._nontrivial, "sums": sums[0], "amp_checked": checked, "amp_skipped": skipped})
        return obs

    def coq_header(self):
        return cg.COQ_HEADER

    def coq_expr(self, c):
        return cg.prog_to_coq(c["prog"])

    def decode(self, c, sx):
        return cg.decode_world(sx)

    def compare(self, c, a, b):
        return core.approx_equal(a[:2], b)

    def oracle(self, c, obs):
        return obs[2]["wiring"]

    def nontrivial(self, c, obs):
        return obs[2]["nontrivial"]

    def stats(self, cases, recs):
        ops = Counter()
        errs = Counter()
        adds = Counter()
        for r in recs:
            if not isinstance(r["impl"], list):
                continue
            for op, out in zip(r["case"]["prog"], r["impl"][0]):
                ops[op[0]] += 1
                if "err" in out:
                    errs[op[0] + ":" + out["err"]] += 1
                elif op[0] == "add":
                    adds["grouped" if op[4] else "ungrouped"] += 1
        extra = Counter()
        for r in recs:
            if isinstance(r["impl"], list) and len(r["impl"]) == 3:
                for k in ("sums", "amp_checked", "amp_skipped"):
                    extra[k] += r["impl"][2].get(k, 0)
        return {"ops": dict(ops), "rejected": dict(errs), "accepted_adds": dict(adds), "accepted_sums_checked": extra["sums"],
                "circuits_with_simulator_amplitudes_checked": extra["amp_checked"], "amplitude_checks_skipped(size)": extra["amp_skipped"]}

    def shrink(self, c):
        prog = c["prog"]
        for i in range(len(prog) - 1, -1, -1):
            d = copy.deepcopy(c)
            op = d["prog"][i]
            if op[0] in ("new", "unitary"):
                cid = op[1]
                if any((o[0] == "add" and cid in (o[1], o[2])) or (o[0] not in ("add",) and o is not op and o[1] == cid) or (o[0] in ("copy", "plus") and cid in o[2:]) for o in d["prog"]):
                    continue
            del d["prog"][i]
            yield d

    def signature(self, c, rec):
        return None


PROP = C02()

if __name__ == "__main__":
    sys.exit(core.main(PROP))
