"""C06 — Imperfect-source model: normalised mixture of distinguishable photon groups."""
from __future__ import annotations

import copy
import itertools
import math
import sys
from fractions import Fraction as F

import core
from core import cb, clist, cn, cz, decode_res, unscale

import lightworks as lw
from lightworks import emulator as em
from lightworks.emulator import Source
from lightworks.emulator.components.source import purity_to_prob
from lightworks.emulator.state import AnnotatedState

TOL = 1e-9
FUZZ = 1e-13          # below this an entry of the implementation is float fuzz of an exact zero
TSCALE = 10**15

# parameter grids (exact rationals; p_i = sqrt(indistinguishability), p2 = 1 - purity_to_prob(purity))
NU = [F(0), F(1, 10), F(1, 2), F(3, 5), F(9, 10), F(99, 100), F(1)]
PI = [F(0), F(1, 10), F(1, 2), F(3, 5), F(9, 10), F(1)]
P2 = [F(0), F(1, 100), F(1, 10), F(1, 4), F(1, 2), F(3, 4)]
REFL = [F(1, 2), F(9, 25), F(16, 25), F(1, 4), F(0), F(1)]
LOSS = [F(1, 10), F(1, 2), F(9, 10), F(0), F(1, 4)]


def fr(x):
    return F(x[0], x[1])


def purity_of(p2):
    return 1 - 2 * p2 / (1 + p2) ** 2


def src_params(c):
    nu, pi, p2, thr = fr(c["nu"]), fr(c["pi"]), fr(c["p2"]), fr(c["thr"])
    pur = fr(c["purity"]) if "purity" in c else purity_of(p2)
    ind = fr(c["indist"]) if "indist" in c else pi * pi
    return nu, pi, p2, pur, ind, thr


FIELDS = ("purity", "brightness", "indistinguishability", "probability_threshold")


def make_source(c):
    """The Source of the case. c["sform"] says how the object came to hold its values (the values are the same):
    ctor     - constructor arguments
    setters  - default-constructed, then every attribute assigned (order given by the case)
    reuse    - an object that served another configuration first (statistics built for another state), was
               re-configured through its setters, and then refused three invalid assignments
    c["ints"]: integral values (0, 1) are passed as Python ints."""
    nu, pi, p2, pur, ind, thr = src_params(c)
    num = (lambda x: int(x) if (c.get("ints") and x.denominator == 1) else float(x))
    vals = dict(purity=num(pur), brightness=num(nu), indistinguishability=num(ind), probability_threshold=num(thr))
    form = c.get("sform", "ctor")
    if form == "ctor":
        return Source(**vals)
    # a default-constructed Source that is tuned in place and thrown away must not leak into later objects
    d0 = Source()
    d0.brightness, d0.purity, d0.indistinguishability, d0.probability_threshold = 0.3, 0.8, 0.4, 0.01
    if form == "setters":
        src = Source()
    else:
        src = Source(purity=0.9, brightness=0.7, indistinguishability=0.6)
        src._build_statistics(lw.State([1, 0, 2]))
        src.check_number(lw.State([2]))
        if "st" in c:       # ... and for the very state of the case, with the other parameters
            st = full_input(c["circ"], c["st"]) if "circ" in c else list(c["st"])
            src._build_statistics(lw.State(list(st)))
    order = list(FIELDS)
    k = c.get("sorder", 0) % 4
    order = order[k:] + order[:k]
    for f in order:
        setattr(src, f, vals[f])
    if form == "reuse":
        # refused on either side of each range and for a wrong type (bool is not a number here): a refused
        # assignment must leave nothing behind - the statistics below are those of the values the object reports
        for f, bad in (("purity", 0.3), ("purity", 1.1), ("purity", True), ("brightness", 1.5), ("brightness", -0.1),
                       ("brightness", True), ("indistinguishability", "x"), ("indistinguishability", 1.5),
                       ("indistinguishability", -0.2), ("probability_threshold", -1), ("probability_threshold", "y")):
            try:
                setattr(src, f, bad)
            except (ValueError, TypeError):
                pass
    return src


def build_circuit(spec):
    n = spec["n"]
    c = lw.Circuit(n)
    for op in spec["ops"]:
        if op[0] == "bs":
            c.bs(op[1], reflectivity=float(F(op[2], op[3])))
        elif op[0] == "ps":
            c.ps(op[1], op[2])
        elif op[0] == "loss":
            c.loss(op[1], float(F(op[2], op[3])))
        elif op[0] == "u":
            c.add(lw.Unitary(lw.random_unitary(n, seed=op[1])), 0)
    for m, k in spec["heralds"]:
        c.herald(k, m)
    return c


def canon_key(k):
    if isinstance(k, AnnotatedState):
        return k.s
    return list(k.s)


def canon_dist(d):
    return sorted([canon_key(k), float(v)] for k, v in d.items())


def full_input(spec, st):
    """input with the herald photons inserted (harness' own bookkeeping)"""
    her = {m: k for m, k in spec["heralds"]}
    it = iter(st)
    return [her[i] if i in her else next(it) for i in range(spec["n"])]


# ----------------------------------------------------------------------------
# independent reference: the documented emission model
# ----------------------------------------------------------------------------
def outcome_table(nu, pi, p2):
    """One emission attempt: the source emits the intended photon (prob p1 = 1 - p2) or the
    intended photon plus one noise photon (prob p2); every photon independently survives with
    probability nu (brightness); the intended photon is indistinguishable from the other
    intended photons with probability pi = sqrt(I), else fully distinguishable; the noise
    photon is always distinguishable.  Returns [(has_ind, n_dist_like, prob)] as
    (intended kind: None/'i'/'d', noise: bool, prob)."""
    p1 = 1 - p2
    alone = p1 * nu + p2 * nu * (1 - nu)
    return [
        (None, False, p1 * (1 - nu) + p2 * (1 - nu) ** 2),
        ("i", False, pi * alone),
        ("d", False, (1 - pi) * alone),
        (None, True, p2 * (1 - nu) * nu),
        ("i", True, p2 * nu * nu * pi),
        ("d", True, p2 * nu * nu * (1 - pi)),
    ]


def reference_groups(nu, pi, p2, full):
    """{sorted tuple of group Fock states: exact probability} by enumeration of the
    independent per-photon outcomes."""
    n = len(full)
    photons = [m for m, k in enumerate(full) for _ in range(k)]
    table = [t for t in outcome_table(nu, pi, p2) if t[2] != 0]
    out = {}
    unit = lambda m: tuple(1 if j == m else 0 for j in range(n))
    for combo in itertools.product(table, repeat=len(photons)):
        w = F(1)
        ind = [0] * n
        groups = []
        for m, (kind, noise, p) in zip(photons, combo):
            w *= p
            if kind == "i":
                ind[m] += 1
            elif kind == "d":
                groups.append(unit(m))
            if noise:
                groups.append(unit(m))
        if any(ind):
            groups.append(tuple(ind))
        key = tuple(sorted(groups))
        out[key] = out.get(key, 0) + w
    return out


def model_cost(nu, pi, p2, n, ph, lossy):
    """rough number of list-dictionary steps of the vm_compute run (association lists, not hash maps)"""
    k = sum(1 for t in outcome_table(nu, pi, p2) if t[2] != 0)
    P = ph * (2 if (p2 != 0 and nu != 0) else 1)
    S = math.comb(n + P, P) if lossy else math.comb(n + P - 1, P) if P else 1
    return (k ** ph) * max(P, 1) * S * S * 3


def groups_of_key(k, n):
    """group Fock states of an implementation key (State or annotated list)"""
    if k and isinstance(k[0], list):
        labs = sorted({x for m in k for x in m})
        gs = [tuple(m.count(lab) for m in k) for lab in labs]
    else:
        gs = [tuple(k)] if any(k) else []
    return tuple(sorted(gs))


def convolve(dists, n):
    cur = {tuple([0] * n): 1.0}
    for d in dists:
        new = {}
        for s1, p1 in cur.items():
            for s2, p2 in d.items():
                s = tuple(a + b for a, b in zip(s1, s2))
                new[s] = new.get(s, 0.0) + p1 * p2
        cur = new
    return cur


class _Ctx:
    """per-case cache of the real circuit and of the backend's group distributions"""

    def __init__(self, c):
        self.circ = build_circuit(c["circ"])
        self.comp = self.circ._build()
        self.backend = em.Backend(c["backend"])
        self.n = self.circ.n_modes
        self.D = {}

    def dist(self, g):
        g = tuple(g)
        if g not in self.D:
            d = self.backend.full_probability_distribution(self.comp, lw.State(list(g)))
            self.D[g] = {tuple(k.s): float(v) for k, v in d.items()}
        return self.D[g]


def mixture(ctx, weights):
    out = {}
    for key, w in weights.items():
        if w == 0:
            continue
        for s, p in convolve([ctx.dist(g) for g in key], ctx.n).items():
            out[s] = out.get(s, 0.0) + float(w) * p
    return out


def dist_diff(a, b, tol=TOL):
    """compare two finitely supported functions given as dict tuple->float"""
    for k in set(a) | set(b):
        if abs(a.get(k, 0.0) - b.get(k, 0.0)) > tol:
            return f"{list(k)}: {a.get(k, 0.0)!r} != {b.get(k, 0.0)!r}"
    return None


def hashable(k):
    return tuple(tuple(m) if isinstance(m, list) else m for m in k)


class C06:
    ID = "C06"
    RULE = ("source parameters from exact grids (brightness 7 values incl. 0 and 1, sqrt(indistinguishability) 6 values, "
            "p2 6 values in [0,1) with purity = 1-2p2/(1+p2)^2), optional probability threshold kept away from every "
            "input probability, inputs with bunching/gaps/heralded photons (<=3 photons <=4 modes quick, <=4 photons "
            "<=5 modes thorough), bs/ps/random-unitary circuits with 0-2 loss elements and 0-2 heralds, both backends; "
            "plus arbitrary labelled dictionaries for _remap_distribution, out-of-range and non-numeric constructor values, HOM and "
            "single-photon (g2) configurations over the whole grid; single-mode circuits; Source objects configured by constructor / setters / "
            "re-used after another configuration and three refused assignments, ints for 0 and 1, a tuned-and-discarded default Source; Samplers that "
            "get their source late, whose source is edited in place after a read, that share a Source, that are read twice. Non-trivial: >=2 photons (or a noise photon "
            "possible) with an imperfect source; distinct = distinct canonical JSON")
    TRUSTED = ["Backend.full_probability_distribution (per-group boson sampling distribution) is an oracle of the model: "
               "its tables are read from the real backend and passed to the model as data rounded to 1e-15 (property C04 covers it)",
               "purity_to_prob / indistinguishability**0.5 are evaluated by CPython floats; the model receives the exact rationals "
               "p2, sqrt(I) and checks (1-purity)(1+p2)^2 = 2 p2 and p_i^2 = I; Proofs/SourceP.v proves the code's real formulas satisfy them"]
    ASSUMPTIONS = ["occupations are validated non-negative ints (Sampler.input_state setter)",
                   "pdist_calc (State inputs) is modelled with the repaired vacuum bookkeeping of finding F1 (property C04; fixed in /repo)",
                   "a probability threshold above every input probability leaves an empty input dictionary (the Sampler then "
                   "returns {vacuum: 1}); normalisation is claimed only when at least one input survives",
                   "check_number: the implementation must contain every input state of the model; extra implementation entries "
                   "are tolerated only below 1e-13 (float fuzz of the exactly vanishing c0 = 1-(p1+p2) at brightness 1)"]
    CHUNK = 12

    def __init__(self):
        self._ctx = {}

    def ctx(self, c):
        key = core._hash({k: v for k, v in c.items() if not k.startswith("_")})
        if key not in self._ctx:
            if len(self._ctx) > 64:
                self._ctx.clear()
            self._ctx[key] = _Ctx(c)
        return self._ctx[key]

    # ---------------------------------------------------------------- generate
    def _params(self, rng):
        r = rng.random()
        if r < 0.12:
            nu, pi, p2 = rng.choice(NU), F(1), F(0)          # brightness-only fast path
        elif r < 0.2:
            nu, pi, p2 = F(1), rng.choice(PI), rng.choice(P2)
        else:
            nu, pi, p2 = rng.choice(NU), rng.choice(PI), rng.choice(P2)
        return nu, pi, p2

    def _state(self, rng, n_modes, max_ph):
        k = rng.randint(0, max_ph)
        st = [0] * n_modes
        for _ in range(k):
            st[rng.randrange(n_modes)] += 1
        if rng.random() < 0.25 and n_modes >= 3:      # force a run of empty modes
            i = rng.randrange(n_modes - 1)
            k2 = st[i] + st[i + 1]
            st[i] = st[i + 1] = 0
            st[rng.randrange(n_modes)] += k2
        return st

    def _threshold(self, rng, c, st_full):
        """choose a threshold that is >= 1e-6 (relative 1e-6) away from every unthresholded probability"""
        if rng.random() < 0.7:
            return F(0)
        d = dict(c, thr=[0, 1])
        probs = [float(v) for v in make_source(d)._build_statistics(lw.State(list(st_full))).values()]
        for _ in range(20):
            t = rng.choice([F(1, 1000), F(1, 100), F(1, 20), F(1, 5), F(1, 2), F(rng.randint(1, 400), 1000)])
            if all(abs(p - float(t)) > 1e-6 for p in probs):
                return t
        return F(0)

    def _circuit(self, rng, n, lossy, n_her):
        ops = []
        if rng.random() < 0.45:
            ops.append(["u", rng.randint(0, 10**6)])
        else:
            for _ in range(rng.randint(1, 2 * n)):
                if rng.random() < 0.75 and n >= 2:
                    r = rng.choice(REFL)
                    ops.append(["bs", rng.randrange(n - 1), r.numerator, r.denominator])
                else:
                    ops.append(["ps", rng.randrange(n), rng.choice([0.0, 1.0, 2.5, 3.141592653589793])])
        if lossy:
            for _ in range(rng.randint(1, 2)):
                l = rng.choice(LOSS)
                ops.insert(rng.randint(0, len(ops)), ["loss", rng.randrange(n), l.numerator, l.denominator])
        her = [[m, rng.choice([0, 1, 1, 2])] for m in sorted(rng.sample(range(n), n_her))]
        if rng.random() < 0.5:
            her.reverse()
        return dict(n=n, ops=ops, heralds=her)

    def generate(self, rng, tier):
        quick = tier == "quick"
        cases = []
        q = lambda x: [x.numerator, x.denominator]
        # (a) single photon / g2 and HOM over the grid
        grid = list(itertools.product(NU, PI, P2))
        if quick:
            grid = rng.sample(grid, 60)
        for nu, pi, p2 in grid:
            cases.append(dict(kind="stats", nu=q(nu), pi=q(pi), p2=q(p2), thr=[0, 1], st=[1]))
        for pi in PI:
            for p2, nu in ((F(0), F(1)), (F(1, 10), F(1)), (F(0), F(9, 10)), (F(1, 4), F(3, 5))):
                for be in ("permanent", "slos"):
                    cases.append(dict(kind="sampler", nu=q(nu), pi=q(pi), p2=q(p2), thr=[0, 1], st=[1, 1], backend=be,
                                      circ=dict(n=2, ops=[["bs", 0, 1, 2]], heralds=[]), hom=True))
        # (b) input statistics
        for _ in range(140 if quick else 2500):
            nu, pi, p2 = self._params(rng)
            n = rng.randint(1, 5 if quick else 7)
            st = self._state(rng, n, 3 if quick else 4)
            c = dict(kind="stats", nu=q(nu), pi=q(pi), p2=q(p2), thr=[0, 1], st=st)
            c["thr"] = q(self._threshold(rng, c, st))
            c.update(sform=rng.choice(["ctor", "setters", "reuse", "reuse"]), sorder=rng.randrange(4), ints=rng.random() < 0.5)
            cases.append(c)
        # (c) sampler
        for k in range(150 if quick else 2200):
            nu, pi, p2 = self._params(rng)
            n = rng.randint(2, 4 if quick else 5)
            n_her = rng.choice([0, 0, 0, 1, 1, 2]) if n >= 3 else rng.choice([0, 0, 1])
            lossy = rng.random() < 0.25
            circ = self._circuit(rng, n, lossy, n_her)
            her_ph = sum(h[1] for h in circ["heralds"])
            max_ph = (3 if quick else 4) - her_ph
            st = self._state(rng, n - n_her, max(0, max_ph))
            budget = 6e7
            if model_cost(nu, pi, p2, n, her_ph, lossy) > budget:
                for h in circ["heralds"]:
                    h[1] = min(h[1], 1)
                her_ph = sum(h[1] for h in circ["heralds"])
            while model_cost(nu, pi, p2, n, sum(st) + her_ph, lossy) > budget and sum(st) > 0:
                st[max(range(len(st)), key=lambda i: st[i])] -= 1      # keep the model run affordable
            c = dict(kind="sampler", nu=q(nu), pi=q(pi), p2=q(p2), thr=[0, 1], st=st, circ=circ,
                     backend=rng.choice(["permanent", "slos"]))
            c["thr"] = q(self._threshold(rng, c, full_input(circ, st)))
            c.update(sform=rng.choice(["ctor", "setters", "reuse"]), sorder=rng.randrange(4), ints=rng.random() < 0.5,
                     shist=rng.choice([None, "late", "attr", "twice", "shared", "late", "attr", "moved", "moved"]))
            cases.append(c)
        # (c') single-mode circuits: every photon is bunched in the one mode; phase and loss only
        for k in range(12 if quick else 200):
            nu, pi, p2 = self._params(rng)
            ops = [["ps", 0, rng.choice([0.0, 1.0, 2.5])]] + ([["loss", 0, l.numerator, l.denominator] for l in [rng.choice(LOSS)]] if rng.random() < 0.5 else [])
            c = dict(kind="sampler", nu=q(nu), pi=q(pi), p2=q(p2), thr=[0, 1], st=[rng.choice([0, 1, 2, 2, 3 if p2 == 0 else 2])],
                     circ=dict(n=1, ops=ops, heralds=[]), backend=rng.choice(["permanent", "slos"]),
                     sform=rng.choice(["ctor", "setters", "reuse"]), sorder=rng.randrange(4), ints=rng.random() < 0.5,
                     shist=rng.choice([None, "late", "attr", "twice", "shared", "moved"]))
            cases.append(c)
        # (d) _remap_distribution on arbitrary labelled dictionaries
        for _ in range(60 if quick else 1500):
            n = rng.randint(1, 4)
            m = rng.randint(1, 6)
            labs = rng.sample(range(0, 9), rng.randint(1, 5))
            d = []
            for _i in range(m):
                a = [[rng.choice(labs) for _ in range(rng.choice([0, 0, 1, 1, 2, 3]))] for _ in range(n)]
                if rng.random() < 0.4 and d:      # an isomorphic copy of an earlier state
                    perm = dict(zip(labs, rng.sample(labs, len(labs))))
                    a = [[perm[x] for x in mm] for mm in rng.choice(d)[0]]
                d.append([a, rng.randint(1, 20)])
            cases.append(dict(kind="remap", d=d))
        # (e) malformed constructor values
        bad = [("purity", F(1, 2)), ("purity", F(2, 5)), ("purity", F(11, 10)), ("nu", F(11, 10)), ("nu", F(-1, 10)),
               ("indist", F(3, 2)), ("indist", F(-1, 100)), ("thr", F(2)), ("thr", F(-1, 2)), ("purity", F(0))]
        for key, v in bad:
            c = dict(kind="stats", nu=q(F(1, 2)), pi=q(F(1)), p2=q(F(0)), thr=[0, 1], st=[1, 0], malformed=key)
            c[key] = q(v)
            cases.append(c)
            cases.append(dict(c, via="setter"))
        # (f) non-numeric constructor values (implementation only: the model's universe is numbers)
        for field in ("purity", "brightness", "indistinguishability", "probability_threshold"):
            for v in (True, "0.7", None, [], ""):
                cases.append(dict(kind="badtype", field=field, value=v))
                cases.append(dict(kind="badtype", field=field, value=v, via="setter"))
        return cases

    # -------------------------------------------------------------------- impl
    def impl(self, c):
        k = c["kind"]
        if k == "stats":
            def run():
                if c.get("via") == "setter":
                    # an out-of-range value assigned to an existing object: rejected like in the constructor, and
                    # the object keeps the value it had
                    nu, pi, p2, pur, ind, thr = src_params(c)
                    src = Source()
                    name = {"purity": "purity", "nu": "brightness", "indist": "indistinguishability",
                            "thr": "probability_threshold"}[c["malformed"]]
                    val = {"purity": pur, "nu": nu, "indist": ind, "thr": thr}[c["malformed"]]
                    before = getattr(src, name)
                    try:
                        setattr(src, name, float(val))
                    except Exception:
                        if getattr(src, name) != before:
                            return dict(kept=False)
                        raise
                    return dict(accepted=True)
                src = make_source(c)
                st = lw.State(list(c["st"]))
                d = src._build_statistics(st)
                typ = -1 if not d else (1 if any(isinstance(x, AnnotatedState) for x in d) else 0)
                n = src.check_number(st)
                again = canon_dist(src._build_statistics(st))         # the same object asked a third time
                return dict(type=typ, dist=canon_dist(d), total=float(sum(d.values())), n=n, same=(again == canon_dist(d)),
                            p1=float(purity_to_prob(src.purity)), p_i=float(src.indistinguishability ** 0.5))
            try:
                return {"ok": run()}
            except (ValueError, TypeError) as e:
                return {"err": type(e).__name__}
        if k == "sampler":
            ctx = self.ctx(c)
            def run():
                src = make_source(c)
                st = lw.State(list(c["st"]))
                hist = c.get("shist")
                if hist == "late":
                    # the Sampler first works with the source it created itself, the case's source is attached afterwards
                    smp = em.Sampler(ctx.circ, st, backend=c["backend"])
                    smp.probability_distribution  # noqa: B018
                    smp.source = src
                elif hist == "attr":
                    # the attached Source object is re-configured attribute by attribute after a first read
                    nu, pi, p2, pur, ind, thr = src_params(c)
                    own = Source()
                    smp = em.Sampler(ctx.circ, st, source=own, backend=c["backend"])
                    smp.probability_distribution  # noqa: B018
                    for f in FIELDS:
                        setattr(own, f, getattr(src, f))
                        if f == "brightness":
                            try:
                                smp.probability_distribution  # noqa: B018
                            except Exception:  # noqa: BLE001
                                pass
                elif hist == "shared":
                    # the same Source object serves another Sampler (other circuit, other input) first
                    o = lw.Circuit(3)
                    o.bs(0)
                    o.bs(1)
                    try:
                        em.Sampler(o, lw.State([1, 1, 0]), source=src).probability_distribution  # noqa: B018
                    except Exception:  # noqa: BLE001
                        pass
                    smp = em.Sampler(ctx.circ, st, source=src, backend=c["backend"])
                elif hist == "moved" and c["circ"]["heralds"]:
                    # the Sampler first serves a twin circuit (same components, same number of input modes) whose
                    # herald sits on ANOTHER mode / carries another photon number, then gets the case's circuit
                    spec2 = copy.deepcopy(c["circ"])
                    m0, k0 = spec2["heralds"][0]
                    free = [m for m in range(spec2["n"]) if m not in [h[0] for h in spec2["heralds"]]]
                    spec2["heralds"][0] = [free[0] if free else m0, k0 if free else 1 - min(k0, 1)]
                    smp = em.Sampler(build_circuit(spec2), st, source=src, backend=c["backend"])
                    try:
                        smp.probability_distribution  # noqa: B018
                    except Exception:  # noqa: BLE001
                        pass
                    smp.circuit = ctx.circ
                else:
                    smp = em.Sampler(ctx.circ, st, source=src, backend=c["backend"])
                if hist == "twice":
                    first = canon_dist(smp.probability_distribution)
                    if canon_dist(smp.probability_distribution) != first:
                        raise AssertionError("second read of probability_distribution differs from the first")
                return canon_dist(smp.probability_distribution)
            try:
                return {"ok": run()}
            except Exception as e:  # noqa: BLE001
                name = type(e).__name__
                return {"err": name if name in core.ERR_CODES.values() else "OtherError", "exc": name}
        if k == "badtype":
            try:
                if c.get("via") == "setter":
                    setattr(Source(), c["field"], c["value"])
                else:
                    Source(**{c["field"]: c["value"]})
                return {"ok": None}
            except Exception as e:  # noqa: BLE001
                return {"err": type(e).__name__}
        if k == "remap":
            d = {}
            for a, w in c["d"]:
                key = AnnotatedState([list(m) for m in a])
                d[key] = d.get(key, 0) + w
            out = Source()._remap_distribution(d)
            return [[kk.s, float(v)] for kk, v in out.items()]       # insertion order is compared too
        return None

    # ------------------------------------------------------------------- model
    def coq_header(self):
        return ("From Coq Require Import ZArith List.\n"
                "From LW Require Import Base.Sx Model.State Model.Source Exec.QNum Exec.RunC06.\n")

    def _src(self, c):
        nu, pi, p2, pur, ind, thr = src_params(c)
        qs = " ".join(core.cq(x) for x in (nu, pi, p2, pur, ind, thr))
        return f"(mk_src {qs})"

    def coq_expr(self, c):
        k = c["kind"]
        zl = lambda l: clist(cz(x) for x in l)
        if k == "stats":
            return f"run_stats {self._src(c)} {zl(c['st'])}"
        if k == "sampler":
            ctx = self.ctx(c)
            full = full_input(c["circ"], c["st"])
            subs = itertools.product(*[range(x + 1) for x in full])
            rows = []
            for g in subs:
                d = ctx.dist(g)
                ent = clist(f"({zl(s)}, {cz(round(p * TSCALE))})" for s, p in d.items())
                rows.append(f"({zl(g)}, {ent})")
            her = clist(f"({cn(m)}, {cz(v)})" for m, v in ctx.circ.heralds["input"].items())
            return (f"run_sampler {self._src(c)} {zl(c['st'])} {her} {cn(ctx.n)} "
                    f"{cb(ctx.comp.loss_modes > 0)} {clist(rows)}")
        if k == "remap":
            zz = lambda a: clist(zl(m) for m in a)
            return "run_remap " + clist(f"({zz(a)}, {cz(w)})" for a, w in c["d"])
        return "SL nil"

    def decode(self, c, sx):
        k = c["kind"]
        if k == "stats":
            r = decode_res(sx)
            if "err" in r:
                return r
            ok, st, total, tab = r["ok"]
            return {"ok": dict(params_ok=bool(ok), type=st[0],
                               dist=sorted([kk, unscale(v)] for kk, v in st[1]),
                               total=unscale(total), table=[unscale(x) for x in tab])}
        if k == "sampler":
            r = decode_res(sx)
            if "err" in r:
                return r
            r2 = decode_res(r["ok"])
            if "err" in r2:
                return r2
            return {"ok": sorted([kk, unscale(v)] for kk, v in r2["ok"])}
        if k == "remap":
            return [[kk, unscale(v)] for kk, v in sx]
        return None

    def compare(self, c, a, b):
        """a = implementation, b = model"""
        k = c["kind"]
        if k == "badtype":
            return None
        if k == "remap":
            return core.approx_equal(a, b)
        if not (isinstance(a, dict) and isinstance(b, dict)):
            return core.approx_equal(a, b)
        if "err" in a or "err" in b:
            return core.approx_equal({kk: v for kk, v in a.items() if kk != "exc"}, b)
        if k == "stats":
            x, y = a["ok"], b["ok"]
            if not y["params_ok"]:
                return "harness error: model rejects the relation between purity/p2 or indistinguishability/p_i"
            if x["type"] != -1 and x["type"] != y["type"]:
                return f"dispatch differs: implementation type {x['type']} model type {y['type']}"
            da = {hashable(kk): v for kk, v in x["dist"]}
            db = {hashable(kk): v for kk, v in y["dist"]}
            d = dist_diff(da, db)
            if d:
                return "input statistics differ at " + d
            # check_number: same set of input states; the implementation may only have EXTRA entries that are
            # float fuzz (< 1e-13) of an exactly vanishing coefficient (c0 = 1 - (p1 + p2) with brightness 1)
            missing = [kk for kk in db if kk not in da]
            if missing:
                return f"check_number differs: implementation lacks input {list(missing[0])} (model p={db[missing[0]]!r})"
            nu_, _pi, p2_, _pur, _ind, _thr = src_params(c)
            fuzzy = x["type"] == 1 and nu_ == 1 and p2_ != 0
            extra = [kk for kk in da if kk not in db and not (fuzzy and da[kk] <= FUZZ)]
            if extra:
                return f"check_number differs: implementation has extra input {list(extra[0])} p={da[extra[0]]!r}"
            if abs(x["total"] - y["total"]) > TOL:
                return f"totals differ {x['total']} {y['total']}"
            return None
        if k == "sampler":
            da = {hashable(kk): v for kk, v in a["ok"]}
            db = {hashable(kk): v for kk, v in b["ok"]}
            d = dist_diff(da, db)
            return ("output distribution differs at " + d) if d else None
        return core.approx_equal(a, b)

    # ------------------------------------------------------------------ oracle
    def oracle(self, c, obs):
        k = c["kind"]
        if k == "remap":
            return self._oracle_remap(c, obs)
        if k == "badtype":
            return None if obs == {"err": "TypeError"} else f"non-numeric {c['field']}={c['value']!r} not rejected with TypeError: {obs}"
        if c.get("malformed"):
            if obs == {"ok": {"kept": False}}:
                return f"rejected assignment of an out-of-range {c['malformed']} changed the Source"
            return None if obs == {"err": "ValueError"} else f"out-of-range {c['malformed']} accepted: {str(obs)[:80]}"
        nu, pi, p2, pur, ind, thr = src_params(c)
        if "err" in obs:
            if k == "sampler" and thr != 0 and obs.get("exc") == "DispatchError" and \
                    not make_source(c)._build_statistics(lw.State(full_input(c["circ"], c["st"]))):
                return None      # every input is below the threshold: nothing is claimed (reported in stats)
            return f"valid configuration rejected: {obs}"
        if k == "stats":
            o = obs["ok"]
            full = list(c["st"])
            n = len(full)
            if abs(o["p1"] - float(1 - p2)) > 1e-9 or abs(o["p_i"] - float(pi)) > 1e-12:
                return f"purity_to_prob/sqrt disagree with the generator's exact roots: {o['p1']} {float(1 - p2)}"
            if o["n"] != len(o["dist"]):
                return "check_number differs from the number of generated inputs"
            if o.get("same") is False:
                return "the same Source object gives different statistics for the same state when asked again"
            if any(len(kk) != n for kk, _ in o["dist"]):
                return "an input state has the wrong number of modes"
            if any(v < 0 for _, v in o["dist"]):
                return "negative input probability"
            if o["dist"] and abs(o["total"] - 1) > TOL:
                return f"input statistics not normalised: total {o['total']!r}"
            raw = o
            if thr != 0:
                raw = self.impl(dict(c, thr=[0, 1]))["ok"]
                kept = {hashable(kk): v for kk, v in raw["dist"] if v >= float(thr)}
                tot = sum(kept.values())
                exp = {kk: v / tot for kk, v in kept.items()}
                d = dist_diff({hashable(kk): v for kk, v in o["dist"]}, exp)
                if d:
                    return "thresholded statistics are not the renormalised restriction: " + d
            # mixture over independent per-photon outcomes, as classes of group multisets
            ref = {kk: float(v) for kk, v in reference_groups(nu, pi, p2, full).items()}
            got = {}
            for kk, v in raw["dist"]:
                g = groups_of_key(kk, n)
                got[g] = got.get(g, 0.0) + v
            d = dist_diff(got, ref)
            if d:
                return "input statistics are not the documented per-photon mixture: groups " + d
            if pur == 1 and ind == 1 and nu == 1 and o["dist"] != [[full, 1.0]]:
                return f"perfect source does not return the ideal input: {o['dist']}"
            # g2 of the emitted photon-number statistics (single emitter)
            if sum(full) == 1 and thr == 0 and nu != 0:
                pn = {}
                for kk, v in o["dist"]:
                    ph = sum(len(m) if isinstance(m, list) else m for m in kk)
                    pn[ph] = pn.get(ph, 0.0) + v
                mean = pn.get(1, 0.0) + 2 * pn.get(2, 0.0)
                g2 = 2 * pn.get(2, 0.0) / mean ** 2
                if abs(g2 - (1 - float(pur))) > 1e-9 / float(nu) ** 2 or any(x > 2 for x in pn):
                    return f"g2 of the emitted statistics {g2!r} != 1 - purity {1 - float(pur)!r}"
            return None
        if k == "sampler":
            ctx = self.ctx(c)
            n = ctx.n
            full = full_input(c["circ"], c["st"])
            got = {hashable(kk): v for kk, v in obs["ok"]}
            if any(v < -1e-15 for v in got.values()):
                return "negative output probability"
            ph = sum(full)
            n_states = 1 + 8 * math.comb(n + ctx.comp.loss_modes + ph - 1, ph) if ph else 1
            # expected mixture
            if thr == 0:
                weights = reference_groups(nu, pi, p2, full)
            else:
                stats = make_source(c)._build_statistics(lw.State(list(full)))
                weights = {}
                for kk, v in stats.items():
                    g = groups_of_key(canon_key(kk), n)
                    weights[g] = weights.get(g, 0.0) + float(v)
                if not weights:
                    weights = None
            if weights is None:
                exp = {tuple([0] * n): 1.0}
            else:
                exp = mixture(ctx, weights)
            tot = sum(got.values())
            if abs(tot - 1) > 1e-9 * n_states:
                return f"output distribution not normalised: total {tot!r} (lossy={ctx.comp.loss_modes > 0})"
            d = dist_diff(got, exp)
            if d:
                return "output is not the mixture of convolved group distributions: " + d
            if nu == 1 and pur == 1 and ind == 1:
                d = dist_diff(got, ctx.dist(full))
                if d:
                    return "perfect source differs from the ideal distribution: " + d
            if nu == 1 and pur == 1 and ind == 0 and thr == 0:
                units = [tuple(1 if j == m else 0 for j in range(n)) for m, kq in enumerate(full) for _ in range(kq)]
                d = dist_diff(got, convolve([ctx.dist(u) for u in units], n))
                if d:
                    return "zero indistinguishability is not the classical product of single-photon distributions: " + d
            if c.get("hom") and nu == 1 and pur == 1:
                co = got.get((1, 1), 0.0)
                if abs(co - (1 - float(ind)) / 2) > TOL:
                    return f"HOM coincidence {co!r} != (1-I)/2 = {(1 - float(ind)) / 2!r}"
            return None
        return None

    def _oracle_remap(self, c, obs):
        n_in = sum(w for _, w in c["d"])
        if abs(sum(v for _, v in obs) - n_in) > TOL:
            return "remapping does not preserve the total weight"
        keys = [hashable(kk) for kk, _ in obs]
        if len(set(keys)) != len(keys):
            return "duplicate keys after remapping"
        # each class of the output collects only label-isomorphic inputs: compare class weights
        n = len(c["d"][0][0])
        cls_in, cls_out = {}, {}
        for a, w in c["d"]:
            g = groups_of_key([sorted(m) for m in a], n)
            cls_in[g] = cls_in.get(g, 0) + w
        for kk, v in obs:
            g = groups_of_key(kk, n)
            cls_out[g] = cls_out.get(g, 0) + v
        d = dist_diff(cls_in, cls_out)
        if d:
            return "remapping moved weight between non-isomorphic states: " + d
        for kk, _ in obs:
            labs = [x for m in kk for x in m]
            first = list(dict.fromkeys(labs))
            if sorted(first) != list(range(len(first))):
                return f"labels of {kk} are not 0..k-1"
        return None

    # ------------------------------------------------------------------ extras
    def nontrivial(self, c, obs):
        k = c["kind"]
        if k == "remap":
            return len(c["d"]) >= 2
        if k == "badtype" or c.get("malformed"):
            return True
        nu, pi, p2, pur, ind, thr = src_params(c)
        ph = sum(c["st"]) + (sum(h[1] for h in c["circ"]["heralds"]) if k == "sampler" else 0)
        imperfect = not (nu == 1 and pi == 1 and p2 == 0)
        return imperfect and (ph >= 2 or (ph >= 1 and p2 != 0 and nu != 0))

    def stats(self, cases, recs):
        from collections import Counter
        kinds = Counter(c["kind"] for c in cases)
        path = Counter()
        photons = Counter()
        lossy = Counter()
        thr = 0
        for c in cases:
            if c["kind"] in ("stats", "sampler") and not c.get("malformed"):
                nu, pi, p2, pur, ind, t = src_params(c)
                path["basic" if (pur == 1 and ind == 1) else "annotated"] += 1
                ph = sum(c["st"]) + (sum(h[1] for h in c["circ"]["heralds"]) if c["kind"] == "sampler" else 0)
                photons[ph] += 1
                thr += t != 0
            if c["kind"] == "sampler":
                lossy[("lossy" if any(o[0] == "loss" for o in c["circ"]["ops"]) else "lossless") + "/" + c["backend"]] += 1
        return {"kinds": dict(kinds), "path": dict(path), "photons_incl_heralds": dict(photons),
                "sampler_circuits": dict(lossy), "with_threshold": thr}

    def signature(self, c, rec):
        return None

    def shrink(self, c):
        if c["kind"] == "badtype":
            return
        if c["kind"] == "remap":
            for i in range(len(c["d"])):
                d = copy.deepcopy(c)
                del d["d"][i]
                if d["d"]:
                    yield d
            return
        if c["kind"] == "sampler":
            for i in range(len(c["circ"]["ops"])):
                d = copy.deepcopy(c)
                del d["circ"]["ops"][i]
                yield d
            if c["circ"]["heralds"]:
                d = copy.deepcopy(c)
                m, _k = d["circ"]["heralds"].pop()
                d["st"] = full_input(c["circ"], c["st"])
                d["st"] = [v for i, v in enumerate(d["st"]) if i not in {h[0] for h in d["circ"]["heralds"]}]
                yield d
            if c["thr"] != [0, 1]:
                yield dict(copy.deepcopy(c), thr=[0, 1])
        for i, v in enumerate(c["st"]):
            if v > 0:
                d = copy.deepcopy(c)
                d["st"][i] -= 1
                yield d
        for key, simple in (("p2", [0, 1]), ("pi", [1, 1]), ("nu", [1, 1])):
            if c[key] != simple and "malformed" not in c:
                d = copy.deepcopy(c)
                d[key] = simple
                yield d


PROP = C06()

if __name__ == "__main__":
    sys.exit(core.main(PROP))
