"""C11 — results depend only on the current configuration, not on history.

Histories on long-lived Sampler / QuickSampler / Analyzer objects.  For every
step the harness keeps, next to the live objects, a DESCRIPTION of the current
settings (circuit as a list of components with the current parameter values,
input, source fields, ...) from which a brand-new set of lightworks objects is
built whenever a reference is needed.  The abstraction handed to the Coq model
(Model/Cache.v) is computed from those fresh builds only: the value of U_full
becomes an opaque identifier (equal bytes <-> equal id), distributions are
named by the full configuration key.  The model predicts, per step, which
configuration's distribution a call returns, which calls raise, and when the
cache is recomputed; the harness materialises the prediction with a fresh
object and compares it with what the long-lived object returned.
"""
from __future__ import annotations

import copy
import json
import random as pyrandom
import sys
from collections import Counter

import numpy as np

import core
from core import cb, clist, cn, cz

import warnings

import lightworks as lw
from lightworks import emulator as em

warnings.filterwarnings("ignore", category=RuntimeWarning)

ERR_NAMES = set(core.ERR_CODES.values())
SCALE6 = 10**6

REFL = [0.5, 0.36, 0.3, 0.64, 0.8]
PHI = [0.4, 1.1, 2.5, -0.7, 0.0]
LOSS = [0.2, 0.5, 0.1]
SRC_OK = {0: [1, 0.9, 0.5], 1: [1, 0.95, 0.8], 2: [1, 0.9, 0.6], 3: [0, 0.001, 0.05]}
SRC_BAD = {0: [1.5, -0.1], 1: [0.5, 0.4, 1.2], 2: [1.01], 3: [-0.5, 2]}
DETS = [[1, True], [1, False], [0.8, True], [0.7, False], [0.9, True, 0.2], [1, False, 0.1]]     # [efficiency, photon_counting(, p_dark)]


def mk_det(d):
    return em.Detector(efficiency=d[0], photon_counting=d[1], p_dark=(d[2] if len(d) > 2 else 0))


def ename(e):
    n = type(e).__name__
    return n if n in ERR_NAMES else "OtherError"


def tup(x):
    return tuple(tup(i) for i in x) if isinstance(x, (list, tuple)) else x


def sc6(v):
    r = round(v * SCALE6)
    assert abs(r - v * SCALE6) < 1e-6, v
    return int(r)


# ------------------------------------------------------------------ the world
def _val(v, params):
    return params[v["p"]] if isinstance(v, dict) else v


def apply_comp(c, comp, params):
    """comp = [kind, mode, value]; value may be {"p": name} (a Parameter)."""
    k, m, v = comp
    if k == "bs":
        c.bs(m, reflectivity=_val(v, params))
    elif k == "ps":
        c.ps(m, _val(v, params))
    elif k == "loss":
        c.loss(m, _val(v, params))
    elif k == "her":
        if isinstance(m, list):            # [input mode, output mode]
            c.herald(int(v), m[0], m[1])
        else:
            c.herald(int(v), m)
    else:
        raise ValueError(k)


def build_circuit(spec, params):
    """A brand-new circuit from its description; [params] maps names either to
    plain numbers (fresh reference objects) or to live lw.Parameter objects."""
    if spec.get("base") is not None:
        c = lw.Unitary(lw.random_unitary(spec["n"], seed=spec["base"]))
    else:
        c = lw.Circuit(spec["n"])
    for comp in spec["ops"]:
        apply_comp(c, comp, params)
    return c


def make_ps(desc):
    """desc: None | {"rules": [[modes, photons], ...]} | {"fn": [mode, n]}"""
    if desc is None:
        return None
    if "fn" in desc:
        m, n = desc["fn"]
        return lambda s: s[m] == n
    ps = lw.PostSelection()
    for modes, phot in desc["rules"]:
        ps.add(tuple(modes), tuple(phot))
    return ps


def ps_value(desc):
    if desc is None:
        return ("rules",)
    if "fn" in desc:
        return ("fn", tuple(desc["fn"]))
    return ("rules",) + tuple(sorted((tuple(m), tuple(p)) for m, p in desc["rules"]))


def fl(x):
    """float for the observation; NaN (0/0 in lightworks) as a string so that equal outcomes compare equal"""
    x = float(x)
    return "nan" if x != x else x


def dist_list(d):
    return [[list(s), fl(p)] for s, p in d.items()]


class World:
    """Description of the objects of one history + abstraction to model terms."""

    def __init__(self, case):
        self.case = case
        self.params = dict(case.get("params", {}))
        self.specs = copy.deepcopy(case["circuits"])
        self.uids = {}
        self.umodes = {}
        self.vids = {}

    def uid(self, c):
        u = np.asarray(c.U_full) + 0.0
        # the identifier stands for (U_full, number of circuit modes): a circuit with 2 modes and one loss mode and a
        # 3-mode circuit with the same 3x3 matrix are different configurations (N19)
        b = (u.shape, u.tobytes(), int(c.n_modes))
        if b not in self.uids:
            self.uids[b] = len(self.uids)
        return self.uids[b]

    def circ_abs(self, spec, params):
        """(U id, input heralds, output heralds, input_modes) of a fresh build."""
        c = build_circuit(spec, params)
        h = c.heralds
        hin = tuple(sorted((int(k), int(v)) for k, v in h["input"].items()))
        hout = tuple(sorted((int(k), int(v)) for k, v in h["output"].items()))
        return self.uid(c), hin, hout, int(c.input_modes)

    def vid(self, v):
        if v not in self.vids:
            self.vids[v] = len(self.vids) + 1
        return self.vids[v]


def her_term(h):
    return clist(f"({cn(m)}, {cn(n)})" for m, n in h)


def nat_list(l):
    return clist(cn(x) for x in l)


def err_term(name):
    return name if name in ERR_NAMES else "OtherError"


def same_index(objs, kinds, i):
    """index of the first earlier step of the same kind that returned the identical object"""
    for j in range(i):
        if kinds[j] == kinds[i] and objs[j] is objs[i]:
            return j
    return i


# =============================================================================
#  Sampler and QuickSampler histories
# =============================================================================
class SamplerRun:
    """Runs one history on the long-lived object, keeping the description of the
    settings in step, and prepares everything model and oracle need."""

    def __init__(self, case):
        self.case = case
        self.quick = case["kind"] == "quick"
        self.w = World(case)
        self.keys = {}          # key tuple -> settings description (first seen)
        self.fresh_cache = {}
        self.checked = set()
        self.dets = {}          # detector id -> [eff, pc]
        self.obs = []
        self.msteps = []        # Coq step terms
        self.setts = []         # settings after each step (None when input does not fit the circuit)
        self.run()

    # ---------------------------------------------------------- descriptions
    def settings(self):
        s = self.cur
        d = dict(spec=copy.deepcopy(self.w.specs[s["c"]]), params=dict(self.w.params), input=list(s["input"]))
        if self.quick:
            d.update(pso=s["pso"], psd=copy.deepcopy(self.psdescs[s["pso"]]), pc=s["pc"])
        else:
            d.update(src=list(s["src"]), backend=s["backend"], det=list(s["det"]))
        return d

    def key_of(self, st):
        u, hin, hout, m = self.w.circ_abs(st["spec"], st["params"])
        if self.quick:
            return (u, hin, hout, tuple(st["input"]), st["pso"], self.w.vid(ps_value(st["psd"])), int(st["pc"])), m
        bk = {"permanent": 0, "slos": 1}[st["backend"]]
        return (u, hin, hout, tuple(st["input"]), bk) + tuple(sc6(x) for x in st["src"]), m

    def det_id(self, det):
        t = (float(det[0]), bool(det[1]), float(det[2]) if len(det) > 2 else 0.0)
        for i, d in self.dets.items():
            if d == t:
                return i
        self.dets[len(self.dets)] = t
        return len(self.dets) - 1

    def register(self):
        """record the settings after a step; returns (key, fits)"""
        st = self.settings()
        key, m = self.key_of(st)
        fits = m == len(st["input"])
        if fits:
            old = self.keys.get(key)
            if old is None:
                self.keys[key] = st
            else:
                a = json.dumps([old["spec"], old["params"]], sort_keys=True)
                b = json.dumps([st["spec"], st["params"]], sort_keys=True)
                if a != b and (key, b) not in self.checked:
                    # two different descriptions with one key: the key must determine the distribution
                    self.checked.add((key, b))
                    d = core.approx_equal(self.fresh_read(key), self._read_of(self.make_fresh(st)))
                    if d:
                        raise AssertionError(f"configuration key {key} does not determine the distribution: {d}")
        self.setts.append((key, fits, st))
        return key, fits

    # ---------------------------------------------------------- fresh objects
    def make_fresh(self, st, det=None):
        c = build_circuit(st["spec"], st["params"])
        if self.quick:
            return em.QuickSampler(c, lw.State(list(st["input"])), photon_counting=st["pc"],
                                   post_select=make_ps(st["psd"]))
        d = st["det"] if det is None else det
        return em.Sampler(c, lw.State(list(st["input"])),
                          source=em.Source(brightness=st["src"][0], purity=st["src"][1],
                                           indistinguishability=st["src"][2], probability_threshold=st["src"][3]),
                          detector=mk_det(d),
                          backend=st["backend"])

    @staticmethod
    def _read_of(obj):
        try:
            return {"ok": sorted(dist_list(obj.probability_distribution))}
        except Exception as e:  # noqa: BLE001
            return {"err": ename(e)}

    def _fresh(self, tag, key, fn, det=None):
        k = (tag, key)
        if k not in self.fresh_cache:
            st = self.keys.get(key)
            if st is None:
                self.fresh_cache[k] = {"unknown-configuration": list(key)}
            else:
                try:
                    self.fresh_cache[k] = {"ok": fn(self.make_fresh(st, det))}
                except Exception as e:  # noqa: BLE001
                    self.fresh_cache[k] = {"err": ename(e)}
        return copy.deepcopy(self.fresh_cache[k])

    def fresh_read(self, key):
        return self._fresh("read", key, lambda o: sorted(dist_list(o.probability_distribution)))

    def fresh_cont(self, key):
        return self._fresh("cont", key, lambda o: dist_list(o.continuous_distribution))

    def fresh_sample(self, key, det, seed):
        def f(o):
            pyrandom.seed(seed)
            return list(o.sample())
        return self._fresh(("sample", det, seed), key, f, self.dets.get(det))

    @staticmethod
    def call_kw(step):
        """per-call arguments of Sampler.sample_N_*: post-selection (a new object per call) and min_detection"""
        kw = {}
        if step.get("ps") is not None:
            kw["post_select"] = make_ps(step["ps"])
        if step.get("mind"):
            kw["min_detection"] = step["mind"]
        return kw

    def fresh_sample_n(self, key, det, step):
        which, n, seed = step.get("which", "outputs"), step["N"], step["seed"]

        def f(o):
            if self.quick:
                r = o.sample_N_outputs(n, seed=seed)
            elif which == "outputs":
                r = o.sample_N_outputs(n, seed=seed, **self.call_kw(step))
            else:
                r = o.sample_N_inputs(n, seed=seed, **self.call_kw(step))
            return sorted([list(s), int(c)] for s, c in r.items())
        return self._fresh(("sample_n", det, which, n, seed, json.dumps([step.get("ps"), step.get("mind")])), key, f,
                           self.dets.get(det))

    # ------------------------------------------------------------- the history
    def run(self):
        case, w = self.case, self.w
        init = case["init"]
        self.live_params = {k: lw.Parameter(v) for k, v in w.params.items()}
        self.live_circ = [build_circuit(s, self.live_params) for s in w.specs]
        if self.quick:
            self.psdescs = [copy.deepcopy(init["ps"])]
            self.psobjs = [make_ps(init["ps"])]
            self.cur = dict(c=init["c"], input=list(init["input"]), pso=0, pc=bool(init["pc"]))
            obj = em.QuickSampler(self.live_circ[init["c"]], lw.State(list(init["input"])),
                                  photon_counting=bool(init["pc"]), post_select=self.psobjs[0])
            # the setter wraps None / functions into a new object: that object is the identity
            self.psobjs[0] = obj.post_select
        else:
            self.cur = dict(c=init["c"], input=list(init["input"]), src=list(init["src"]),
                            backend=init["backend"], det=list(init["det"]))
            s = init["src"]
            obj = em.Sampler(self.live_circ[init["c"]], lw.State(list(init["input"])),
                             source=em.Source(brightness=s[0], purity=s[1], indistinguishability=s[2],
                                              probability_threshold=s[3]),
                             detector=mk_det(init["det"]),
                             backend=init["backend"])
        self.obj = obj
        st0 = self.settings()
        key0, m0 = self.key_of(st0)
        assert m0 == len(st0["input"])
        self.keys[key0] = st0
        self.init_key, self.init_m = key0, m0
        self.init_det = None if self.quick else self.det_id(init["det"])
        self.kinds, self.objs = [], []
        for step in case["steps"]:
            self.do_step(step)

    def circ_term(self, spec):
        u, hin, hout, m = self.w.circ_abs(spec, self.w.params)
        return f"{u}%N {her_term(hin)} {her_term(hout)} {cn(m)}"

    def reconf(self, fn, term, update):
        """a setter / in-place edit: [update] is applied to the description iff the live call succeeds"""
        try:
            fn()
            update()
            self.obs.append({"ok": None})
        except Exception as e:  # noqa: BLE001
            self.obs.append({"err": ename(e)})
        self.msteps.append(term)
        self.kinds.append("reconf")
        self.objs.append(None)

    def do_step(self, step):
        o, w, cur, q = self.obj, self.w, self.cur, self.quick
        op = step["op"]
        C = "Q" if q else "S"
        if op == "circuit":
            i = step["c"]
            self.reconf(lambda: setattr(o, "circuit", self.live_circ[i]),
                        f"({C}SetCircuit {self.circ_term(w.specs[i])})", lambda: cur.update(c=i))
        elif op == "append":      # in-place edit of the attached circuit object: must be a valid edit
            comp = step["comp"]
            apply_comp(self.live_circ[cur["c"]], comp, self.live_params)
            w.specs[cur["c"]]["ops"].append(copy.deepcopy(comp))
            self._silent(f"({C}SetCircuit {self.circ_term(w.specs[cur['c']])})")
        elif op == "param":
            self.live_params[step["name"]].set(step["value"])
            w.params[step["name"]] = step["value"]
            self._silent(f"({C}SetCircuit {self.circ_term(w.specs[cur['c']])})")
        elif op == "input":
            s = list(step["s"])
            self.reconf(lambda: setattr(o, "input_state", lw.State(list(s))),
                        f"({C}SetInput {nat_list(s)})", lambda: cur.update(input=s))
        elif op == "source":
            if step["how"] == "new":
                v = list(step["v"])
                self.reconf(lambda: setattr(o, "source", em.Source(brightness=v[0], purity=v[1],
                                                                   indistinguishability=v[2],
                                                                   probability_threshold=v[3])),
                            "(SSetSource " + " ".join(cz(sc6(x)) for x in v) + ")", lambda: cur.update(src=v))
            else:
                f, x = step["field"], step["value"]
                name = ["brightness", "purity", "indistinguishability", "probability_threshold"][f]
                def upd():
                    cur["src"][f] = x
                self.reconf(lambda: setattr(o.source, name, x), f"(SSetSrcField {cn(f)} {cz(sc6(x))})", upd)
        elif op == "backend":
            b = step["b"]
            code = {"permanent": 0, "slos": 1}.get(b, 7)
            if step["how"] == "new":
                self.reconf(lambda: setattr(o, "backend", b), f"(SSetBackend {code}%N)", lambda: cur.update(backend=b))
            else:
                self.reconf(lambda: setattr(o.backend, "backend", b), f"(SSetBackend {code}%N)",
                            lambda: cur.update(backend=b))
        elif op == "detector":
            v = list(step["v"])
            did = self.det_id(v)
            if step["how"] == "new":
                self.reconf(lambda: setattr(o, "detector", mk_det(v)),
                            f"(SSetDetector {did}%N)", lambda: cur.update(det=v))
            else:
                def f():
                    o.detector.efficiency = v[0]
                    o.detector.photon_counting = v[1]
                    o.detector.p_dark = v[2] if len(v) > 2 else 0
                self.reconf(f, f"(SSetDetector {did}%N)", lambda: cur.update(det=v))
        elif op == "pc":
            b = bool(step["v"])
            self.reconf(lambda: setattr(o, "photon_counting", b), f"(QSetPc {cb(b)})", lambda: cur.update(pc=b))
        elif op == "ps_new":
            desc = copy.deepcopy(step["ps"])
            obj = make_ps(desc)
            def f():
                o.post_select = obj
                self.psobjs.append(o.post_select)
                self.psdescs.append(desc)
            idn = len(self.psobjs)
            self.reconf(f, f"(QSetPostSelect {idn}%N {w.vid(ps_value(desc))}%N)", lambda: cur.update(pso=idn))
        elif op == "ps_set":      # re-attach an object created earlier (same identity)
            i = step["i"] % len(self.psobjs)
            self.reconf(lambda: setattr(o, "post_select", self.psobjs[i]),
                        f"(QSetPostSelect {i}%N {w.vid(ps_value(self.psdescs[i]))}%N)", lambda: cur.update(pso=i))
        elif op == "ps_add":      # in-place edit of the attached PostSelection object: must be valid
            i = cur["pso"]
            modes, phot = step["rule"]
            self.psobjs[i].add(tuple(modes), tuple(phot))
            self.psdescs[i] = {"rules": list((self.psdescs[i] or {"rules": []})["rules"]) + [[list(modes), list(phot)]]}
            self._silent(f"(QSetPostSelect {i}%N {w.vid(ps_value(self.psdescs[i]))}%N)")
        elif op == "decoy":
            # other objects come and go: one default-constructed on the same live circuit whose own defaults are then
            # changed, one that SHARES the live object's source / detector / backend / post-selection objects and is
            # read, sampled and re-pointed; nothing of this is a setting of the long-lived object
            def quiet(fn):
                try:
                    fn()
                except Exception:  # noqa: BLE001
                    pass
            circ, st = self.live_circ[cur["c"]], lw.State(list(cur["input"]))
            if q:
                def d1():
                    d = em.QuickSampler(circ, st)
                    d.probability_distribution  # noqa: B018
                    d.photon_counting = False
                    if hasattr(d.post_select, "add"):
                        d.post_select.add(0, 5)
                def d2():
                    d = em.QuickSampler(circ, st, photon_counting=o.photon_counting, post_select=o.post_select)
                    d.probability_distribution  # noqa: B018
                    d.sample_N_outputs(3, seed=1)
                    d.photon_counting = not o.photon_counting
                    d.circuit = self.live_circ[(cur["c"] + 1) % len(self.live_circ)]
            else:
                def d1():
                    d = em.Sampler(circ, st)
                    d.probability_distribution  # noqa: B018
                    d.source.brightness = 0.5
                    d.source.purity = 0.9
                    d.detector.efficiency = 0.5
                    d.detector.photon_counting = False
                    d.backend.backend = "slos"
                def d2():
                    d = em.Sampler(circ, st, source=o.source, detector=o.detector, backend=o.backend)
                    d.probability_distribution  # noqa: B018
                    d.sample_N_outputs(3, seed=1)
                    d.sample()
                    d.circuit = self.live_circ[(cur["c"] + 1) % len(self.live_circ)]
            rs = pyrandom.getstate()
            quiet(d1)
            quiet(d2)
            pyrandom.setstate(rs)
            self._silent(f"({C}SetCircuit {self.circ_term(w.specs[cur['c']])})")
        elif op in ("read", "cont"):
            try:
                d = o.probability_distribution if op == "read" else o.continuous_distribution
                self.objs.append(d)
                self.kinds.append(op)
                lst = dist_list(d)
                self.obs.append({"ok": {"dist": sorted(lst) if op == "read" else lst,
                                        "same": same_index(self.objs, self.kinds, len(self.objs) - 1)}})
            except Exception as e:  # noqa: BLE001
                self.objs.append(None)
                self.kinds.append(op)
                self.obs.append({"err": ename(e)})
            self.msteps.append(f"{C}Read" if op == "read" else f"{C}ReadCont")
        elif op == "sample":
            try:
                pyrandom.seed(step["seed"])
                self.obs.append({"ok": list(o.sample())})
            except Exception as e:  # noqa: BLE001
                self.obs.append({"err": ename(e)})
            self._noobj(f"({C}Sample {cz(step['seed'])})")
        elif op == "sample_n":
            try:
                if q:
                    r = o.sample_N_outputs(step["N"], seed=step["seed"])
                elif step["which"] == "outputs":
                    r = o.sample_N_outputs(step["N"], seed=step["seed"], **self.call_kw(step))
                else:
                    r = o.sample_N_inputs(step["N"], seed=step["seed"], **self.call_kw(step))
                self.obs.append({"ok": sorted([list(s), int(c)] for s, c in r.items())})
            except Exception as e:  # noqa: BLE001
                self.obs.append({"err": ename(e)})
            self._noobj(f"({C}SampleN {cz(step['seed'])})")
        else:
            raise ValueError(op)
        self.register()

    def _silent(self, term):
        self.obs.append({"ok": None})
        self._noobj(term)

    def _noobj(self, term):
        self.msteps.append(term)
        self.kinds.append("x")
        self.objs.append(None)

    # ------------------------------------------------------------- model term
    def errs_term(self):
        items = []
        for key in self.keys:
            r = self.fresh_read(key)
            if "err" in r:
                items.append(f"({self.key_term(key)}, {err_term(r['err'])})")
        return clist(items)

    def key_term(self, key):
        if self.quick:
            u, hin, hout, inp, pso, psv, pc = key
            return (f"(Build_qkey {u}%N {her_term(hin)} {her_term(hout)} {nat_list(inp)} {pso}%N {psv}%N {cb(pc)})")
        u, hin, hout, inp, bk, br, pu, ind, thr = key
        return (f"(Build_skey {u}%N {her_term(hin)} {her_term(hout)} {nat_list(inp)} {bk}%N "
                f"{cz(br)} {cz(pu)} {cz(ind)} {cz(thr)})")

    def coq_expr(self):
        key = self.init_key
        if self.quick:
            u, hin, hout, inp, pso, psv, pc = key
            c0 = (f"(Build_qcfg {u}%N {her_term(hin)} {her_term(hout)} {cn(self.init_m)} {nat_list(inp)} "
                  f"{pso}%N {psv}%N {cb(pc)})")
            return f"run_quick true true true {self.errs_term()} {c0} {clist(self.msteps)}"
        u, hin, hout, inp, bk, br, pu, ind, thr = key
        c0 = (f"(Build_scfg {u}%N {her_term(hin)} {her_term(hout)} {cn(self.init_m)} {nat_list(inp)} {bk}%N "
              f"{cz(br)} {cz(pu)} {cz(ind)} {cz(thr)} {self.init_det}%N)")
        return f"run_sampler true {self.errs_term()} {c0} {clist(self.msteps)}"

    # ------------------------------------------------------------- decode
    def decode(self, sx):
        steps = self.case["steps"]
        assert len(sx) == len(steps), (len(sx), len(steps))
        gens = [(e[1][0] if e[1] else None) for e in sx]
        out = []
        for i, (step, e) in enumerate(zip(steps, sx)):
            o = e[0]
            tag = o[0]
            if tag == 0:
                out.append({"ok": None})
            elif tag == 1:
                out.append({"err": core.ERR_CODES.get(o[1], f"code{o[1]}")})
            elif tag in (2, 3):
                key = self.key_from_sx(o[1])
                r = self.fresh_read(key) if tag == 2 else self.fresh_cont(key)
                if "ok" in r:
                    r = {"ok": {"dist": r["ok"], "gen": gens[i]}}
                out.append(r)
            else:
                key = self.key_from_sx(o[1][0])
                det = None if self.quick else o[1][1]
                if step["op"] == "sample":
                    out.append(self.fresh_sample(key, det, step["seed"]))
                else:
                    out.append(self.fresh_sample_n(key, det, step))
        return out

    def key_from_sx(self, k):
        return tup(k)

    # ------------------------------------------------------------- oracle
    def oracle(self):
        """read == read of a fresh object with the current settings; sampling with
        seed s == sampling of the fresh object with seed s; sampling never needs a
        previous read.  Steps at which the input does not fit the circuit (no fresh
        object with those settings can be created) carry no claim."""
        fails = []
        for i, (step, ob, (key, fits, st)) in enumerate(zip(self.case["steps"], self.obs, self.setts)):
            op = step["op"]
            if op not in ("read", "cont", "sample", "sample_n") or not fits:
                continue
            det = None if self.quick else self.det_id(st["det"])
            if op == "read":
                ref = self.fresh_read(key)
            elif op == "cont":
                ref = self.fresh_cont(key)
            elif op == "sample":
                ref = self.fresh_sample(key, det, step["seed"])
            else:
                ref = self.fresh_sample_n(key, det, step)
            got = ob
            if "ok" in got and isinstance(got["ok"], dict):
                got = {"ok": got["ok"]["dist"]}
            name = {"read": "probability_distribution", "cont": "continuous_distribution",
                    "sample": "sample()",
                    "sample_n": "sample_N_" + ("outputs" if self.quick else step.get("which", "outputs"))}[op]
            who = "QuickSampler" if self.quick else "Sampler"
            if op in ("sample", "sample_n") and ref.get("err") == "AttributeError" and "ok" in self.fresh_read(key):
                fails.append(f"{who}.{name} on a freshly created object raises AttributeError although its "
                             f"distribution can be computed: sampling needs a previous read (settings of step {i})")
                continue
            if "err" in got and "err" not in ref:
                fails.append(f"{who}.{name} raised {got['err']} where a freshly created object with the same "
                             f"settings succeeds (step {i})")
                continue
            d = core.approx_equal(got, ref)
            if d:
                fails.append(f"{who}.{name} differs from a freshly created object with the same settings, "
                             f"history dependence (step {i}): {d}")
        return " | ".join(fails) if fails else None


# =============================================================================
#  Analyzer histories
# =============================================================================
class AnalyzerRun:
    def __init__(self, case):
        self.case = case
        self.w = World(case)
        self.keys = {}
        self.fresh_cache = {}
        self.obs = []
        self.msteps = []
        self.setts = []
        self.run()

    def settings(self):
        return dict(spec=copy.deepcopy(self.w.specs[self.cur["c"]]), params=dict(self.w.params),
                    psd=copy.deepcopy(self.cur["ps"]))

    def key_of(self, st):
        c = build_circuit(st["spec"], st["params"])
        return (self.w.uid(c), self.her_key(c), int(c.input_modes), self.w.vid(ps_value(st["psd"])))

    @staticmethod
    def her_key(c):
        """both herald dictionaries as ONE list of pairs (the model only compares it): output modes shifted by 100"""
        h = c.heralds
        return (tuple(sorted((int(k), int(v)) for k, v in h["input"].items()))
                + tuple(sorted((100 + int(k), int(v)) for k, v in h["output"].items())))

    def register(self):
        st = self.settings()
        key = self.key_of(st)
        self.keys.setdefault(key, st)
        self.setts.append((key, st))
        return key

    def make_fresh(self, st):
        a = em.Analyzer(build_circuit(st["spec"], st["params"]))
        a.post_selection = make_ps(st["psd"])
        return a

    def inputs(self, i):
        return [lw.State(list(s)) for s in self.case["inputs"][i]]

    def expected(self, x):
        return {lw.State(list(a)): [lw.State(list(b)) for b in bs] for a, bs in self.case["expected"][x]}

    def fresh_probs(self, key, i):
        k = ("p", key, i)
        if k not in self.fresh_cache:
            st = self.keys.get(key)
            if st is None:
                self.fresh_cache[k] = {"unknown-configuration": list(key)}
            else:
                try:
                    r = self.make_fresh(st).analyze(self.inputs(i))
                    self.fresh_cache[k] = {"ok": [[[fl(v) for v in row] for row in np.asarray(r.array).tolist()], fl(r.performance)]}
                except Exception as e:  # noqa: BLE001
                    self.fresh_cache[k] = {"err": ename(e)}
        return copy.deepcopy(self.fresh_cache[k])

    def fresh_er(self, key, i, x):
        k = ("e", key, i, x)
        if k not in self.fresh_cache:
            st = self.keys.get(key)
            if st is None:
                self.fresh_cache[k] = {"unknown-configuration": list(key)}
            else:
                try:
                    r = self.make_fresh(st).analyze(self.inputs(i), self.expected(x))
                    self.fresh_cache[k] = {"ok": fl(r.error_rate)}
                except Exception as e:  # noqa: BLE001
                    self.fresh_cache[k] = {"err": ename(e)}
        return copy.deepcopy(self.fresh_cache[k])

    def attrs(self):
        a = self.obj
        return {"perf": [fl(a.performance)] if hasattr(a, "performance") else [],
                "er": [fl(a.error_rate)] if hasattr(a, "error_rate") else []}

    def circ_term(self, spec):
        c = build_circuit(spec, self.w.params)
        return f"{self.w.uid(c)}%N {her_term(self.her_key(c))} {cn(c.input_modes)}"

    def run(self):
        case, w = self.case, self.w
        init = case["init"]
        self.live_params = {k: lw.Parameter(v) for k, v in w.params.items()}
        self.live_circ = [build_circuit(s, self.live_params) for s in w.specs]
        self.cur = dict(c=init["c"], ps=copy.deepcopy(init["ps"]))
        self.obj = a = em.Analyzer(self.live_circ[init["c"]])
        a.post_selection = make_ps(init["ps"])
        self.init_key = self.key_of(self.settings())
        self.keys[self.init_key] = self.settings()
        for step in case["steps"]:
            op = step["op"]
            cur = self.cur
            if op == "circuit":
                a.circuit = self.live_circ[step["c"]]
                cur["c"] = step["c"]
                self.msteps.append(f"(ANSetCircuit {self.circ_term(w.specs[cur['c']])})")
                self.obs.append(dict(res={"ok": []}, **self.attrs()))
            elif op == "append":
                apply_comp(self.live_circ[cur["c"]], step["comp"], self.live_params)
                w.specs[cur["c"]]["ops"].append(copy.deepcopy(step["comp"]))
                self.msteps.append(f"(ANSetCircuit {self.circ_term(w.specs[cur['c']])})")
                self.obs.append(dict(res={"ok": []}, **self.attrs()))
            elif op == "param":
                self.live_params[step["name"]].set(step["value"])
                w.params[step["name"]] = step["value"]
                self.msteps.append(f"(ANSetCircuit {self.circ_term(w.specs[cur['c']])})")
                self.obs.append(dict(res={"ok": []}, **self.attrs()))
            elif op == "ps":
                a.post_selection = make_ps(step["ps"])
                cur["ps"] = copy.deepcopy(step["ps"])
                self.msteps.append(f"(ANSetPs {w.vid(ps_value(cur['ps']))}%N)")
                self.obs.append(dict(res={"ok": []}, **self.attrs()))
            elif op == "ps_add":
                # a rule added IN PLACE to the PostSelection object the Analyzer holds (no setter is involved)
                modes, phot = step["rule"]
                if isinstance(cur["ps"], dict) and "rules" in cur["ps"]:      # (a shrunk history may have lost the object)
                    try:
                        a.post_selection.add(tuple(modes), tuple(phot))
                        cur["ps"] = {"rules": list(cur["ps"]["rules"]) + [[list(modes), list(phot)]]}
                    except ValueError:       # the mode already has a rule (only in a shrunk history): nothing changes
                        pass
                self.msteps.append(f"(ANSetPs {w.vid(ps_value(cur['ps']))}%N)")
                self.obs.append(dict(res={"ok": []}, **self.attrs()))
            elif op == "analyze":
                i, x = step["i"], step["x"]
                try:
                    r = a.analyze(self.inputs(i)) if x is None else a.analyze(self.inputs(i), self.expected(x))
                    res = {"ok": [{"probs": [[fl(v) for v in row] for row in np.asarray(r.array).tolist()],
                                   "perf": fl(r.performance),
                                   "er": [fl(r.error_rate)] if hasattr(r, "error_rate") else []}]}
                except Exception as e:  # noqa: BLE001
                    res = {"err": ename(e)}
                xt = "None" if x is None else f"(Some {cn(x)})"
                self.msteps.append(f"(ANAnalyze {cn(i)} {xt})")
                self.obs.append(dict(res=res, **self.attrs()))
            else:
                raise ValueError(op)
            self.register()

    def coq_expr(self):
        perrs, eerrs = [], []
        seen = set()
        for step, (key, _st) in zip(self.case["steps"], self.setts):
            if step["op"] != "analyze":
                continue
            i, x = step["i"], step["x"]
            if (key, i) not in seen:
                seen.add((key, i))
                r = self.fresh_probs(key, i)
                if "err" in r:
                    perrs.append(f"(({self.key_term(key)}, {cn(i)}), {err_term(r['err'])})")
            if x is not None and (key, i, x) not in seen and "ok" in self.fresh_probs(key, i):
                seen.add((key, i, x))
                r = self.fresh_er(key, i, x)
                if "err" in r:
                    eerrs.append(f"((({self.key_term(key)}, {cn(i)}), {cn(x)}), {err_term(r['err'])})")
        u, h, m, p = self.init_key
        c0 = f"(Build_acfg {u}%N {her_term(h)} {cn(m)} {p}%N)"
        return f"run_analyzer false {clist(perrs)} {clist(eerrs)} {c0} {clist(self.msteps)}"

    def key_term(self, key):
        u, h, m, p = key
        return f"({u}%N, {her_term(h)}, {cn(m)}, {p}%N)"

    def val_pr(self, p):      # [akey, i] -> [probs, perf] of a fresh analyzer
        return self.fresh_probs(tup(p[0]), p[1])

    def decode(self, sx):
        out = []
        for e in sx:
            res, pf, er = e
            ob = {}
            if res[0] == 1:
                ob["res"] = {"err": core.ERR_CODES.get(res[1], f"code{res[1]}")}
            elif not res[1]:
                ob["res"] = {"ok": []}
            else:
                pr, pfk, erk = res[1][0]
                a = self.val_pr(pr)
                b = self.val_pr(pfk)
                r = {"probs": a.get("ok", [a])[0], "perf": b["ok"][1] if "ok" in b else b, "er": []}
                if erk:
                    r["er"] = [self.er_val(erk[0])]
                ob["res"] = {"ok": [r]}
            if pf:
                b = self.val_pr(pf[0])
                ob["perf"] = [b["ok"][1] if "ok" in b else b]
            else:
                ob["perf"] = []
            ob["er"] = [self.er_val(er[0])] if er else []
            out.append(ob)
        return out

    def er_val(self, erk):
        (pr, x) = erk
        r = self.fresh_er(tup(pr[0]), pr[1], x)
        return r["ok"] if "ok" in r else r

    def oracle(self):
        """the result of analyze() holds exactly what THIS call computed: the same
        probabilities and performance as a brand-new Analyzer with the current
        settings, an error_rate iff `expected` was given (and then this call's)."""
        for i, (step, ob, (key, _st)) in enumerate(zip(self.case["steps"], self.obs, self.setts)):
            if step["op"] != "analyze" or "ok" not in ob["res"]:
                if step["op"] == "analyze" and "ok" in self.fresh_probs(key, step["i"]) and (
                        step["x"] is None or "ok" in self.fresh_er(key, step["i"], step["x"])):
                    return f"Analyzer.analyze raised {ob['res']['err']} where a fresh Analyzer succeeds (step {i})"
                continue
            r = ob["res"]["ok"][0]
            ref = self.fresh_probs(key, step["i"])
            if "ok" not in ref:
                return f"Analyzer.analyze succeeded where a fresh Analyzer raises {ref} (step {i})"
            d = core.approx_equal([r["probs"], r["perf"]], ref["ok"])
            if d:
                return f"Analyzer.analyze result differs from a fresh Analyzer with the same settings (step {i}): {d}"
            if step["x"] is None:
                if r["er"]:
                    return (f"Analyzer.analyze without `expected` returns a result carrying error_rate="
                            f"{r['er'][0]} computed by an earlier call (step {i})")
            else:
                ref = self.fresh_er(key, step["i"], step["x"])
                d = core.approx_equal(r["er"], [ref.get("ok")])
                if d:
                    return f"Analyzer.analyze error_rate of the result is not the one of this call (step {i}): {d}"
        return None


# =============================================================================
#  generators
# =============================================================================
def gen_comp(rng, n, lossy, pnames):
    k = rng.choice(["bs", "bs", "ps", "ps", "loss"] if lossy else ["bs", "bs", "ps"])
    if n < 2 and k == "bs":
        k = "ps"
    if k == "bs":
        v = {"p": "r0"} if "r0" in pnames and rng.random() < 0.3 else rng.choice(REFL)
        return ["bs", rng.randrange(n - 1), v]
    if k == "ps":
        v = {"p": "t0"} if "t0" in pnames and rng.random() < 0.3 else rng.choice(PHI)
        return ["ps", rng.randrange(n), v]
    return ["loss", rng.randrange(n), rng.choice(LOSS)]


def gen_spec(rng, n, lossy, pnames, heralds):
    ops = [gen_comp(rng, n, lossy, pnames) for _ in range(rng.randint(1, 4))]
    if n >= 2 and not any(o[0] == "bs" for o in ops):
        ops.insert(0, ["bs", rng.randrange(n - 1), rng.choice(REFL)])
    for m, k in heralds:
        ops.append(["her", m, k])
    base = rng.choice([None, None, rng.randint(0, 40)])
    return {"n": n, "base": base, "ops": ops}


def n_her(spec):
    return sum(1 for o in spec["ops"] if o[0] == "her")


def in_modes(spec):
    return spec["n"] - n_her(spec)


def gen_input(rng, m, maxp=2):
    s = [0] * m
    for _ in range(rng.choice([1, 1, 2, 2, maxp, 0])):
        if m:
            s[rng.randrange(m)] += 1
    return s


def gen_pool(rng, lossy, max_modes):
    """circuits of one history: a base circuit, a twin with identical components
    but different herald photon numbers, one with equally many input modes and a
    different unitary, one of a different size"""
    pnames = ["r0", "t0"]
    n = rng.randint(2, max_modes)
    nh = rng.choice([0, 1, 1, 2]) if n >= 3 else rng.choice([0, 1])
    nh = min(nh, n - 1)
    hm = sorted(rng.sample(range(n), nh))
    her = [[m, rng.choice([0, 1])] for m in hm]
    if len(her) == 1 and rng.random() < 0.25:
        her[0][1] = 2                              # a herald with two photons (threshold detection must refuse it)
    c0 = gen_spec(rng, n, lossy, pnames, her)
    pool = [c0]
    if her:
        twin = copy.deepcopy(c0)
        j = rng.randrange(len(her))
        hs = [o for o in twin["ops"] if o[0] == "her"]
        hs[j][2] = {0: 1, 1: 0, 2: 1}[hs[j][2]]
        pool.append(twin)
        free_out = [mm for mm in range(n) if mm not in hm]
        if free_out:
            # a second twin: identical components and INPUT heralds, one herald leaves on another output mode
            # (same U_full, same input herald dictionary, different output herald dictionary)
            twin2 = copy.deepcopy(c0)
            hs2 = [o for o in twin2["ops"] if o[0] == "her"]
            j2 = rng.randrange(len(hs2))
            hs2[j2][1] = [hs2[j2][1], rng.choice(free_out)]
            pool.append(twin2)
    else:
        pool.append(copy.deepcopy(c0))          # an equal but distinct object
    pool.append(gen_spec(rng, n, lossy, pnames, [[m, rng.choice([0, 1])] for m in hm]))
    n2 = rng.choice([x for x in range(2, max_modes + 1) if x != n] or [n])
    pool.append(gen_spec(rng, n2, lossy, pnames, [[0, rng.choice([0, 1])]] if rng.random() < 0.4 and n2 >= 2 else []))
    params = {"r0": rng.choice(REFL), "t0": rng.choice(PHI)}
    return pool, params


def gen_ps(rng, m):
    u = rng.random()
    if u < 0.25 or m == 0:
        return None
    if u < 0.4:
        return {"fn": [rng.randrange(m), rng.choice([0, 1])]}
    rules = []
    for mode in rng.sample(range(m), rng.randint(0, min(2, m))):
        rules.append([[mode], [rng.choice([0, 1])] if rng.random() < 0.7 else [0, 1]])
    return {"rules": rules}


def gen_sampler_case(rng, quick, tier):
    max_modes = 4
    lossy = rng.random() < (0.25 if quick else 0.5)
    pool, params = gen_pool(rng, lossy, max_modes)
    specs = copy.deepcopy(pool)       # generator-side shadow of the in-place edits
    cur = 0
    m = in_modes(specs[cur])
    inp = gen_input(rng, m)
    if quick:
        init = dict(c=0, input=inp, pc=rng.random() < 0.8, ps=gen_ps(rng, m) if rng.random() < 0.5 else None)
        ps_cur, ps_n = copy.deepcopy(init["ps"]), 1
    else:
        src = [1, 1, 1, 0] if rng.random() < 0.6 else [rng.choice(SRC_OK[k]) for k in range(4)]
        init = dict(c=0, input=inp, src=src, backend=rng.choice(["permanent", "permanent", "slos"]),
                    det=list(rng.choice(DETS[:2] if rng.random() < 0.7 else DETS)))
    steps = []
    nsteps = rng.randint(5, 15 if tier == "quick" else 24)
    pending_input = False
    # cumulative thresholds: circuit, append, param, input (the rest is kind specific)
    T = [0.22, 0.32, 0.42, 0.54] if quick else [0.15, 0.21, 0.28, 0.38]
    cur_input = list(inp)
    cur_pc = init.get("pc", True)
    cur_src = list(init.get("src", [1, 1, 1, 0]))
    cur_bk = init.get("backend", "permanent")

    def observe():
        u = rng.random()
        if u < 0.45:
            return {"op": "read"}
        if u < 0.55:
            return {"op": "cont"}
        if u < 0.82:
            return {"op": "sample", "seed": rng.randint(0, 10**6)}
        st = {"op": "sample_n", "which": rng.choice(["outputs", "inputs"]), "N": rng.randint(5, 40),
              "seed": rng.choice([0, rng.randint(0, 10**6), rng.randint(0, 10**6)])}
        if not quick and rng.random() < 0.5:
            # post-selection and min_detection are per-call arguments of the Sampler: they change from call to call
            st["ps"] = gen_ps(rng, m)
            st["mind"] = rng.choice([0, 0, 1, 1, 2])
        return st

    if rng.random() < 0.45:
        steps.append(observe())
    while len(steps) < nsteps:
        if pending_input and rng.random() < 0.8:
            cur_input = gen_input(rng, m)
            steps.append({"op": "input", "s": list(cur_input)})
            pending_input = False
        else:
            u = rng.random()
            if rng.random() < 0.12:
                # a reconfiguration that changes nothing: same circuit object again, an equal input,
                # an equal new Source / Backend object, the same flag
                v = rng.random()
                if v < 0.25:
                    steps.append({"op": "circuit", "c": cur})
                elif v < 0.45:
                    steps.append({"op": "decoy"})
                elif v < 0.6 and not pending_input and len(cur_input) == m:
                    steps.append({"op": "input", "s": list(cur_input)})
                elif quick:
                    steps.append({"op": "pc", "v": cur_pc})
                elif v < 0.8:
                    steps.append({"op": "source", "how": "new", "v": list(cur_src)})
                else:
                    steps.append({"op": "backend", "how": "new", "b": cur_bk})
            elif u < T[0]:
                cur = rng.randrange(len(specs))
                steps.append({"op": "circuit", "c": cur})
                if in_modes(specs[cur]) != m:
                    pending_input = True
                m = in_modes(specs[cur])
            elif u < T[1]:
                comp = gen_comp(rng, specs[cur]["n"], lossy, params)
                free = [mm for mm in range(specs[cur]["n"])
                        if not any(o[0] == "her" and (mm in o[1] if isinstance(o[1], list) else o[1] == mm) for o in specs[cur]["ops"])]
                if len(free) >= 2 and rng.random() < 0.25:
                    # a herald added IN PLACE to the attached circuit object: the number of input modes drops,
                    # the herald-removal bookkeeping of the sampler must follow
                    comp = ["her", rng.choice(free), rng.choice([0, 0, 1])]
                if comp[0] == "her" and not pending_input:
                    # sampled before and after: the bookkeeping filled by the first sampling call must not
                    # be reused for the new herald set
                    steps.append({"op": "sample_n", "which": rng.choice(["outputs", "inputs"]), "N": rng.randint(20, 40),
                                  "seed": rng.randint(0, 10**6)})
                specs[cur]["ops"].append(comp)
                steps.append({"op": "append", "comp": comp})
                if comp[0] == "her":
                    m = in_modes(specs[cur])
                    cur_input = gen_input(rng, m)
                    steps.append({"op": "input", "s": list(cur_input)})
                    pending_input = False
                    steps.append({"op": "sample_n", "which": rng.choice(["outputs", "inputs"]), "N": rng.randint(20, 40),
                                  "seed": rng.randint(0, 10**6)})
            elif u < T[2]:
                name = rng.choice(["r0", "t0"])
                steps.append({"op": "param", "name": name, "value": rng.choice(REFL if name == "r0" else PHI)})
            elif u < T[3]:
                if rng.random() < 0.12:
                    steps.append({"op": "input", "s": gen_input(rng, m + rng.choice([-1, 1]) if m > 0 else 1)})
                else:
                    cur_input = gen_input(rng, m)
                    steps.append({"op": "input", "s": list(cur_input)})
                    pending_input = False
            elif quick:
                if u < 0.64:
                    cur_pc = rng.random() < 0.5
                    steps.append({"op": "pc", "v": cur_pc})
                elif u < 0.76:
                    ps_cur = gen_ps(rng, m)
                    ps_n += 1
                    steps.append({"op": "ps_new", "ps": copy.deepcopy(ps_cur)})
                elif u < 0.82:
                    steps.append({"op": "ps_set", "i": rng.randrange(ps_n)})
                    ps_cur = "?"
                elif u < 0.94:
                    # in-place rule on the attached PostSelection object, on a mode without a rule
                    if isinstance(ps_cur, dict) and "rules" in ps_cur and m > 0:
                        used = {x for r in ps_cur["rules"] for x in r[0]}
                        free = [x for x in range(m) if x not in used]
                        if free:
                            rule = [[rng.choice(free)], [rng.choice([0, 1])]]
                            ps_cur["rules"].append(copy.deepcopy(rule))
                            steps.append({"op": "ps_add", "rule": rule})
                        else:
                            continue
                    else:
                        ps_cur = {"rules": []}
                        ps_n += 1
                        steps.append({"op": "ps_new", "ps": {"rules": []}})
                else:
                    steps.append(observe())
            else:
                if u < 0.50:
                    bad = rng.random() < 0.08
                    if not bad:
                        cur_bk = rng.choice(["permanent", "slos"])
                    steps.append({"op": "backend", "how": rng.choice(["new", "attr"]),
                                  "b": "bogus" if bad else cur_bk})
                elif u < 0.74:
                    if rng.random() < 0.4:
                        v = [rng.choice(SRC_OK[k]) for k in range(4)]
                        if rng.random() < 0.5:      # a new object differing in one field only
                            v = list(cur_src)
                            k = rng.randrange(4)
                            v[k] = rng.choice(SRC_OK[k])
                        if rng.random() < 0.1:
                            k = rng.randrange(4)
                            v[k] = rng.choice(SRC_BAD[k])
                        if all(v[k] in SRC_OK[k] for k in range(4)):
                            cur_src = list(v)
                        steps.append({"op": "source", "how": "new", "v": v})
                    else:
                        k = rng.randrange(4)
                        val = rng.choice(SRC_BAD[k] if rng.random() < 0.1 else SRC_OK[k])
                        if val in SRC_OK[k]:
                            cur_src[k] = val
                        steps.append({"op": "source", "how": "attr", "field": k, "value": val})
                elif u < 0.82:
                    steps.append({"op": "detector", "how": rng.choice(["new", "attr"]), "v": list(rng.choice(DETS))})
                else:
                    steps.append(observe())
        if rng.random() < 0.55 and len(steps) < nsteps:
            steps.append(observe())
            while rng.random() < 0.3 and len(steps) < nsteps:
                steps.append(observe())
    return dict(kind="quick" if quick else "sampler", params=params, circuits=pool, init=init, steps=steps)


def gen_toggle_case(rng, quick):
    """systematic small scope: observe, change exactly ONE setting, observe again
    (twice), change it back, observe.  The base configuration is chosen so that
    every setting matters: three modes, two beam splitters, two photons in
    different modes."""
    her = rng.choice([[], [[2, 0]], [[2, 1]], [[0, 1]]])
    n = 3 if not her else 4
    ops = [["bs", 0, rng.choice(REFL[:4])], ["ps", 1, {"p": "t0"}], ["bs", 1, {"p": "r0"}],
           ["bs", 0, rng.choice(REFL[:4])]]
    if not quick and rng.random() < 0.5:
        ops.append(["loss", rng.randrange(3), rng.choice(LOSS)])
    spec = {"n": n, "base": None, "ops": ops + [["her", m, k] for m, k in her]}
    twin = copy.deepcopy(spec)
    if her:
        twin["ops"][-1][2] = 1 - twin["ops"][-1][2]
    else:
        twin["ops"].insert(len(ops), ["ps", 0, 1.3])
    other = copy.deepcopy(spec)
    other["ops"][0][2] = 0.8
    params = {"r0": rng.choice(REFL[:4]), "t0": rng.choice(PHI[:4])}
    m = in_modes(spec)
    inp = rng.choice([[1, 1, 0], [1, 0, 1], [0, 1, 1], [2, 0, 0]])
    inp2 = [x for x in ([1, 1, 0], [1, 0, 1], [0, 1, 1]) if x != inp][rng.randrange(2)]
    assert m == 3

    def observe():
        u = rng.random()
        if u < 0.3:
            return {"op": "read"}
        if u < 0.5:
            return {"op": "cont"}
        if u < 0.8:
            return {"op": "sample", "seed": rng.randint(0, 10**6)}
        st = {"op": "sample_n", "which": rng.choice(["outputs", "inputs"]), "N": rng.randint(10, 40),
              "seed": rng.randint(0, 10**6)}
        if not quick and rng.random() < 0.4:
            st["ps"] = gen_ps(rng, 3)
            st["mind"] = rng.choice([0, 1, 2])
        return st

    if quick:
        ps0 = rng.choice([None, {"rules": []}, {"rules": [[[0], [0, 1]]]}])
        init = dict(c=0, input=inp, pc=True, ps=ps0)
        fields = ["input", "circuit", "twin", "param", "append", "pc", "ps_new"]
        if ps0 is not None:
            fields += ["ps_add", "ps_add"]
        f = rng.choice(fields)
    else:
        src = rng.choice([[1, 1, 1, 0], [0.9, 0.95, 0.9, 0], [0.9, 1, 1, 0.001], [1, 0.95, 0.6, 0]])
        bk = rng.choice(["permanent", "slos"])
        det = list(rng.choice(DETS))
        init = dict(c=0, input=inp, src=src, backend=bk, det=det)
        f = rng.choice(["input", "circuit", "twin", "param", "append", "backend", "backend_attr", "src0", "src1",
                        "src2", "src3", "src_new", "det", "det_attr"])
    there, back = [], []
    if f == "input":
        there, back = [{"op": "input", "s": inp2}], [{"op": "input", "s": inp}]
    elif f == "circuit":
        there, back = [{"op": "circuit", "c": 2}], [{"op": "circuit", "c": 0}]
    elif f == "twin":
        there, back = [{"op": "circuit", "c": 1}], [{"op": "circuit", "c": 0}]
    elif f == "param":
        name = rng.choice(["r0", "t0"])
        new = rng.choice([v for v in (REFL[:4] if name == "r0" else PHI[:4]) if v != params[name]])
        there = [{"op": "param", "name": name, "value": new}]
        back = [{"op": "param", "name": name, "value": params[name]}]
    elif f == "append":
        there = [{"op": "append", "comp": ["bs", rng.randrange(2), rng.choice(REFL[:4])]}]
        back = [{"op": "append", "comp": ["ps", 0, 0.4]}]
    elif f == "pc":
        there, back = [{"op": "pc", "v": False}], [{"op": "pc", "v": True}]
    elif f == "ps_new":
        there = [{"op": "ps_new", "ps": {"rules": [[[rng.randrange(3)], [rng.choice([0, 1])]]]}}]
        back = [{"op": "ps_set", "i": 0}]
    elif f == "ps_add":
        there = [{"op": "ps_add", "rule": [[rng.choice([1, 2])], [rng.choice([0, 1])]]}]
        back = [{"op": "ps_new", "ps": copy.deepcopy(init["ps"])}]
    elif f in ("backend", "backend_attr"):
        ob = "slos" if init["backend"] == "permanent" else "permanent"
        how = "new" if f == "backend" else "attr"
        there, back = [{"op": "backend", "how": how, "b": ob}], [{"op": "backend", "how": how, "b": init["backend"]}]
    elif f in ("src0", "src1", "src2", "src3"):
        k = int(f[3])
        new = rng.choice([v for v in SRC_OK[k] if v != init["src"][k]])
        there = [{"op": "source", "how": "attr", "field": k, "value": new}]
        back = [{"op": "source", "how": "attr", "field": k, "value": init["src"][k]}]
    elif f == "src_new":
        k = rng.randrange(3)
        v = list(init["src"])
        v[k] = rng.choice([x for x in SRC_OK[k] if x != v[k]])
        there, back = [{"op": "source", "how": "new", "v": v}], [{"op": "source", "how": "new", "v": list(init["src"])}]
    else:
        nd = list(rng.choice([d for d in DETS if d != init["det"]]))
        how = "new" if f == "det" else "attr"
        there, back = [{"op": "detector", "how": how, "v": nd}], [{"op": "detector", "how": how, "v": list(init["det"])}]
    steps = (([observe()] if rng.random() < 0.8 else []) + there + [observe()] + ([{"op": "decoy"}] if rng.random() < 0.3 else [])
             + [observe()] + back + [observe()])
    return dict(kind="quick" if quick else "sampler", params=params, circuits=[spec, twin, other], init=init,
                steps=steps)


def gen_detector_case(rng):
    """a Sampler whose detector is re-configured (in place or replaced) between sampling calls: every pair of
    detector settings - ideal, lossy, threshold, with dark counts - occurs in both orders, sampled before and after"""
    n = rng.randint(2, 3)
    spec = {"n": n, "base": rng.choice([None, rng.randint(0, 40)]), "ops": [["bs", 0, rng.choice(REFL)]] + ([["bs", 1, rng.choice(REFL)]] if n == 3 else [])}
    inp = rng.choice([[1, 1, 0], [2, 0, 0], [1, 0, 1]])[:n] if n == 3 else rng.choice([[1, 1], [2, 0], [1, 0]])
    init = dict(c=0, input=inp, src=[1, 1, 1, 0], backend="permanent", det=list(rng.choice(DETS)))

    def smp():
        u = rng.random()
        if u < 0.45:
            return {"op": "sample", "seed": rng.randint(0, 10**6)}
        st = {"op": "sample_n", "which": "inputs" if u < 0.85 else "outputs", "N": rng.randint(10, 30), "seed": rng.randint(0, 10**6)}
        if rng.random() < 0.3:
            st["mind"] = rng.choice([1, 2])
        return st

    steps = [smp()] if rng.random() < 0.8 else []
    for _ in range(rng.randint(2, 4)):
        steps.append({"op": "detector", "how": rng.choice(["attr", "attr", "new"]), "v": list(rng.choice(DETS))})
        steps.append(smp())
        if rng.random() < 0.4:
            steps.append(smp())
    return dict(kind="sampler", params={"r0": 0.5, "t0": 0.4}, circuits=[spec], init=init, steps=steps)


def gen_split_case(rng, quick):
    """two circuits with the SAME U_full and a different split into circuit and loss modes (k modes + a loss element of
    loss 0 = identity of dimension k+1 = an empty circuit on k+1 modes): re-pointing a used object from one to the other
    must give what a fresh object gives - an error while the input does not fit, the new distribution once it does"""
    k = rng.randint(1, 3)
    a = {"n": k, "base": None, "ops": [["loss", rng.randrange(k), 0]]}
    b = {"n": k + 1, "base": None, "ops": []}
    first, second = (0, 1) if rng.random() < 0.5 else (1, 0)
    circuits = [a, b]
    m1 = circuits[first]["n"]
    m2 = circuits[second]["n"]
    inp1 = gen_input(rng, m1)
    inp2 = gen_input(rng, m2)

    def observe():
        u = rng.random()
        if u < 0.5:
            return {"op": "read"}
        if u < 0.8:
            return {"op": "sample", "seed": rng.randint(0, 10**6)}
        return {"op": "sample_n", "which": "outputs", "N": rng.randint(5, 20), "seed": rng.randint(0, 10**6)}

    steps = [observe(), {"op": "circuit", "c": second}, observe(), observe(), {"op": "input", "s": inp2}, observe(),
             {"op": "circuit", "c": first}, observe(), {"op": "input", "s": inp1}, observe()]
    if quick:
        init = dict(c=first, input=inp1, pc=True, ps=None)
    else:
        init = dict(c=first, input=inp1, src=[1, 1, 1, 0], backend=rng.choice(["permanent", "slos"]), det=[1, True])
    return dict(kind="quick" if quick else "sampler", params={"r0": 0.5, "t0": 0.4}, circuits=circuits, init=init, steps=steps)


def gen_analyzer_case(rng, tier):
    n = rng.randint(2, 3)
    lossy = rng.random() < 0.3
    pnames = ["r0", "t0"]
    pool = [gen_spec(rng, n, lossy, pnames, []), gen_spec(rng, n, lossy, pnames, []),
            gen_spec(rng, n, lossy, pnames, [])]
    if n == 3 and rng.random() < 0.5:
        pool.append(gen_spec(rng, 4, lossy, pnames, [[rng.randrange(4), 0]]))   # herald without photons
    if rng.random() < 0.5:
        # a herald that carries a photon, and a twin whose herald leaves on another output mode
        hm = rng.randrange(n + 1)
        hspec = gen_spec(rng, n + 1, lossy, pnames, [[hm, rng.choice([1, 1, 0])]])
        pool.append(hspec)
        tw = copy.deepcopy(hspec)
        tw["ops"][-1][1] = [hm, rng.choice([x for x in range(n + 1) if x != hm])]
        pool.append(tw)
    params = {"r0": rng.choice(REFL), "t0": rng.choice(PHI)}
    nph = rng.choice([1, 1, 2])
    basis = [s for s in _fock(n, nph)]
    inputs, expected = [], []
    for _ in range(3):
        ins = rng.sample(basis, rng.randint(1, min(3, len(basis))))
        inputs.append(ins)
    if rng.random() < 0.15:
        inputs.append([basis[0], _fock(n, nph + 1)[0]])          # PhotonNumberError
    for _ in range(2):
        src = basis if rng.random() < 0.8 else basis[1:]         # sometimes an input is missing: KeyError
        expected.append([[s, rng.sample(basis, rng.randint(1, 2))] for s in src])
    steps = []
    specs = copy.deepcopy(pool)
    cur = 0
    ps_cur = None

    def analyze():
        return {"op": "analyze", "i": rng.randrange(len(inputs)),
                "x": rng.randrange(len(expected)) if rng.random() < 0.45 else None}

    for _ in range(rng.randint(4, 12 if tier == "quick" else 20)):
        u = rng.random()
        if u < 0.5:
            steps.append(analyze())
        elif u < 0.65:
            cur = rng.randrange(len(pool))
            steps.append({"op": "circuit", "c": cur})
        elif u < 0.77:
            comp = gen_comp(rng, specs[cur]["n"], lossy, pnames)
            inplace = False
            if not any(o[0] == "loss" for o in specs[cur]["ops"]) and rng.random() < 0.5:
                # the first loss element of the attached circuit, added in place: outputs with fewer photons
                # become possible although no setter of the Analyzer was used; analysed before and after
                comp = ["loss", rng.randrange(in_modes(specs[cur])) if in_modes(specs[cur]) == specs[cur]["n"] else 0, rng.choice(LOSS)]
                inplace = True
                i = rng.randrange(len(inputs))
                steps.append({"op": "analyze", "i": i, "x": None})
            specs[cur]["ops"].append(comp)
            steps.append({"op": "append", "comp": comp})
            if inplace:
                steps.append({"op": "analyze", "i": i, "x": None})
        elif u < 0.87:
            name = rng.choice(pnames)
            steps.append({"op": "param", "name": name, "value": rng.choice(REFL if name == "r0" else PHI)})
        elif u < 0.94 and isinstance(ps_cur, dict) and "rules" in ps_cur:
            used = {x for r in ps_cur["rules"] for x in r[0]}
            free = [x for x in range(n) if x not in used]
            if free:
                # a rule added in place to the attached PostSelection object, analysed before and after
                rule = [[rng.choice(free)], [rng.choice([0, 1])]]
                i = rng.randrange(len(inputs))
                steps.append({"op": "analyze", "i": i, "x": None})
                ps_cur["rules"].append(copy.deepcopy(rule))
                steps.append({"op": "ps_add", "rule": rule})
                steps.append({"op": "analyze", "i": i, "x": None})
        else:
            ps_cur = gen_ps(rng, n) if rng.random() < 0.8 else None
            steps.append({"op": "ps", "ps": copy.deepcopy(ps_cur)})
    return dict(kind="analyzer", params=params, circuits=pool, init=dict(c=0, ps=None), inputs=inputs,
                expected=expected, steps=steps)


def _fock(n, k):
    if n == 1:
        return [[k]]
    out = []
    for i in range(k, -1, -1):
        out += [[i] + r for r in _fock(n - 1, k - i)]
    return out


# =============================================================================
class C11:
    ID = "C11"
    RULE = ("histories of 5-15 (thorough: up to 24) calls on one long-lived Sampler / QuickSampler / Analyzer over "
            "2-4 mode circuits (bs/ps/loss, Parameter-driven values, heralds with 0/1 photons, random unitaries): "
            "circuit reassignment incl. a twin with identical U_full and different herald photons, in-place "
            "component appends, Parameter.set, input, source (new object / attribute), backend (new / in place), "
            "detector, post-selection (new object, re-attached object, rule added in place - also to the Analyzer's object; a first loss "
            "element added in place to the Analyzer's circuit), photon_counting, "
            "rejected setters; reads of both distributions, sample() and sample_N_* with seeds, analyze with and "
            "without `expected`; per-call post_select / min_detection arguments of Sampler.sample_N_*, detectors with dark counts, "
            "heralds with two photons, Analyzer circuits whose heralds carry photons or leave on another mode, other objects that share the live "
            "circuit / source / detector / post-selection objects and are used and discarded in between. Non-trivial = an accepted reconfiguration is followed by a successful "
            "read/sample (analyzer: at least two analyze calls). distinct = distinct canonical JSON")
    TRUSTED = ["abstraction from lightworks objects to model terms (harness/c11.py World): U_full -> identifier by exact "
               "bytes, heralds sorted by mode, source fields x 10^6, post-selection -> (object number, rule-set id); "
               "computed from fresh builds of the circuit description, never from the long-lived object",
               "reference values are produced by freshly created lightworks objects (the property is relational)"]
    ASSUMPTIONS = ["the model's circuit identifier stands for the pair (U_full, number of circuit modes) (N19: circuits with equal "
                   "U_full and a different split into circuit and loss modes are different configurations)",
                   "lightworks' global settings (sampler_probability_threshold) are not changed during a history",
                   "the list a State was constructed from is not edited afterwards (C18 aliasing, outside the API)",
                   "post-selection given as a python function is a pure function of the state"]
    CHUNK = 25

    def __init__(self):
        self._runs = {}

    def _key(self, case):
        return json.dumps({k: v for k, v in case.items() if not k.startswith("_")}, sort_keys=True)

    def _run(self, case, fresh=False):
        k = self._key(case)
        if fresh or k not in self._runs:
            self._runs[k] = AnalyzerRun(case) if case["kind"] == "analyzer" else SamplerRun(case)
        return self._runs[k]

    def generate(self, rng, tier):
        n = 250 if tier == "quick" else 5000
        cases = []
        for k in range(n):
            r = k % 5
            if k % 10 == 1:
                cases.append(gen_detector_case(rng))
            elif k % 25 == 7:
                cases.append(gen_split_case(rng, k % 2 == 1))
            elif r in (0, 1):
                cases.append(gen_toggle_case(rng, False) if k % 3 == 0 else gen_sampler_case(rng, False, tier))
            elif r in (2, 3):
                cases.append(gen_toggle_case(rng, True) if k % 3 == 0 else gen_sampler_case(rng, True, tier))
            else:
                cases.append(gen_analyzer_case(rng, tier))
        return cases

    def impl(self, case):
        return self._run(case, fresh=True).obs

    def coq_header(self):
        return ("From Coq Require Import ZArith NArith List Bool.\n"
                "From LW Require Import Base.Sx Model.Cache Exec.RunC11.\n")

    def coq_expr(self, case):
        try:
            return self._run(case).coq_expr()
        except Exception as e:  # noqa: BLE001  (the implementation pass failed; reported through impl())
            return "SL nil"

    def decode(self, case, sx):
        return self._run(case).decode(sx)

    def compare(self, case, a, b):
        """implementation vs model.  Values, exceptions and attribute states must
        agree.  Cache behaviour is compared in ONE direction: whenever the
        implementation returns the very object it returned at an earlier step (a
        cache hit), the model must also have kept its cache between the two steps.
        An implementation that recomputes more often than the model is not flagged
        (it cannot return a stale value)."""
        if case["kind"] == "analyzer" or not isinstance(a, list) or not isinstance(b, list) or len(a) != len(b):
            return core.approx_equal(a, b)
        for i, (x, y) in enumerate(zip(a, b)):
            xs = isinstance(x, dict) and isinstance(x.get("ok"), dict)
            ys = isinstance(y, dict) and isinstance(y.get("ok"), dict)
            if xs and ys:
                d = core.approx_equal(x["ok"]["dist"], y["ok"]["dist"], path=f"[{i}].ok.dist")
                if d:
                    return d
                j = x["ok"]["same"]
                if j != i:
                    yj = b[j]
                    if not (isinstance(yj, dict) and isinstance(yj.get("ok"), dict)
                            and yj["ok"].get("gen") == y["ok"].get("gen")):
                        return (f"[{i}]: the implementation returned the object cached at step {j}, "
                                f"the model recomputed in between")
            else:
                d = core.approx_equal(x, y, path=f"[{i}]")
                if d:
                    return d
        return None

    def oracle(self, case, obs):
        run = self._runs.pop(self._key(case), None) or self._run(case)
        self._runs.pop(self._key(case), None)
        return run.oracle()

    def nontrivial(self, case, obs):
        steps = case["steps"]
        if not isinstance(obs, list) or len(obs) != len(steps):
            return False
        if case["kind"] == "analyzer":
            return sum(1 for s, o in zip(steps, obs) if s["op"] == "analyze" and "ok" in o["res"]) >= 2
        seen_reconf = False
        for s, o in zip(steps, obs):
            if s["op"] in ("read", "cont", "sample", "sample_n"):
                if seen_reconf and "ok" in o:
                    return True
            elif "ok" in o:
                seen_reconf = True
        return False

    def stats(self, cases, recs):
        kinds = Counter(c["kind"] for c in cases)
        ops = Counter(s["op"] for c in cases for s in c["steps"])
        hits = miss = errs = 0
        errc = Counter()
        for r in recs:
            ob = r["impl"]
            if not isinstance(ob, list):
                continue
            for i, o in enumerate(ob):
                if isinstance(o, dict) and "err" in o:
                    errs += 1
                    errc[r["case"]["steps"][i]["op"] + ":" + o["err"]] += 1
                if isinstance(o, dict) and isinstance(o.get("res"), dict) and "err" in o["res"]:
                    errs += 1
                    errc["analyze:" + o["res"]["err"]] += 1
                if isinstance(o, dict) and isinstance(o.get("ok"), dict) and "same" in o["ok"]:
                    if o["ok"]["same"] == i:
                        miss += 1
                    else:
                        hits += 1
        lens = Counter(min(len(c["steps"]) // 5 * 5, 20) for c in cases)
        return {"kinds": dict(kinds), "step_ops": dict(ops), "reads_returning_cached_object": hits,
                "reads_returning_new_object": miss, "steps_raising": errs,
                "raised_by_op_and_class": dict(errc),
                "history_length_buckets": {str(k): v for k, v in sorted(lens.items())}}

    def signature(self, case, rec):
        return None

    def shrink(self, case):
        steps = case["steps"]
        for i in range(len(steps) - 1, -1, -1):
            d = copy.deepcopy({k: v for k, v in case.items() if not k.startswith("_")})
            del d["steps"][i]
            yield d


PROP = C11()

if __name__ == "__main__":
    sys.exit(core.main(PROP))
