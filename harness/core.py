"""Shared driver for the per-property checks (see DESIGN.md section 4).

A property module (harness/cXX.py) exposes an object PROP with
  ID, TITLE, RULE (str), LEVEL_NOTE
  generate(rng, tier) -> list of JSON-able cases (dicts)
  impl(case) -> observation (JSON-able, canonical) from the real lightworks
  coq_header() -> str ; coq_expr(case) -> str (a Coq term of type sx)
  decode(case, sx) -> observation of the model in the same canonical form
  oracle(case, obs) -> None or str  (direct statement of the property on the
                                     implementation = failing-input search)
  nontrivial(case, obs) -> bool
optional: compare(case, a, b), signature(case, text), shrink(case), stats(cases)
"""
from __future__ import annotations

import fcntl
import hashlib
import json
import math
import os
import random
import re
import shutil
import subprocess
import sys
import time
import traceback
from concurrent.futures import ThreadPoolExecutor

ROOT = os.path.dirname(os.path.dirname(os.path.abspath(__file__)))
COQ = os.path.join(ROOT, "coq")
TOL = 1e-9
SCALE = 10**12

FORBIDDEN = [
    (r"^\s*(?:Local\s+|Global\s+|#\[[^\]]*\]\s*)?(?:Axiom|Axioms|Parameter|Parameters|Conjecture|Conjectures)\b", "axiom declaration"),
    (r"\bAdmitted\b", "Admitted"),
    (r"\badmit\b", "admit"),
    (r"Admit\s+Obligations", "Admit Obligations"),
    (r"Unset\s+Guard\s+Checking|Unset\s+Positivity\s+Checking|Unset\s+Universe\s+Checking", "kernel check switched off"),
    (r"bypass_check", "bypass_check"),
    (r"type-in-type|impredicative-set", "kernel flag"),
]


# ----------------------------------------------------------------------------
# Coq side
# ----------------------------------------------------------------------------
def _run(cmd, cwd=None, timeout=1800, env=None):
    try:
        p = subprocess.run(cmd, cwd=cwd, capture_output=True, text=True, timeout=timeout, env=env)
        return p.returncode, p.stdout, p.stderr
    except subprocess.TimeoutExpired as e:
        return 124, (e.stdout or b"").decode() if isinstance(e.stdout, bytes) else (e.stdout or ""), "TIMEOUT"


def coq_build(pid=None, extra=()):
    """Full .vo build (incremental) of everything the property depends on
    (Properties/<pid>.v and Exec/Run<pid>.v with their dependency closure);
    setup_cmd builds the whole development. Returns (ok, log)."""
    os.makedirs(os.path.join(ROOT, ".work"), exist_ok=True)
    with open(os.path.join(ROOT, ".work", "build.lock"), "w") as lock:
        fcntl.flock(lock, fcntl.LOCK_EX)
        targets = []
        if pid:
            for t in (f"theories/Properties/{pid}.vo", f"theories/Exec/Run{pid}.vo"):
                if os.path.exists(os.path.join(COQ, t[:-1])):
                    targets.append(t)
            targets.extend(extra)
        rc, out, err = _run(["bash", os.path.join(COQ, "build.sh"), *targets], cwd=COQ, timeout=3000)
        return rc == 0, out + err


def scan_forbidden():
    hits = []
    for dp, _, fns in os.walk(os.path.join(COQ, "theories")):
        for fn in fns:
            if not fn.endswith(".v"):
                continue
            path = os.path.join(dp, fn)
            txt = open(path).read()
            # strip comments (non-nested is enough for our files; nested handled by loop)
            prev = None
            while prev != txt:
                prev = txt
                txt = re.sub(r"\(\*(?:(?!\(\*|\*\)).)*\*\)", " ", txt, flags=re.S)
            for rx, what in FORBIDDEN:
                for m in re.finditer(rx, txt, flags=re.M):
                    hits.append(f"{os.path.relpath(path, ROOT)}: {what}: {m.group(0).strip()}")
    return hits


def property_file(pid):
    """Recompile Properties/<pid>.v alone, capturing Print Assumptions.

    Returns dict(ok, theorems=[names], assumptions={name: [axioms]}, log)."""
    src = os.path.join(COQ, "theories", "Properties", f"{pid}.v")
    txt = open(src).read()
    theorems = re.findall(r"^\s*(?:Theorem|Corollary)\s+([A-Za-z0-9_']+)", txt, flags=re.M)
    examples = re.findall(r"^\s*(?:Example)\s+([A-Za-z0-9_']+)", txt, flags=re.M)
    work = os.path.join(ROOT, ".work", f"{pid}-prop-{os.getpid()}")
    os.makedirs(work, exist_ok=True)
    try:
        dst = os.path.join(work, f"{pid}_recheck.v")
        shutil.copy(src, dst)
        rc, out, err = _run(["coqc", "-Q", os.path.join(COQ, "theories"), "LW", "-w", "none", dst], cwd=work, timeout=1500)
    finally:
        shutil.rmtree(work, ignore_errors=True)
    assumptions = {}
    # Print Assumptions output blocks, in order of appearance
    blocks = re.split(r"(?=^Closed under the global context|^Axioms:)", out, flags=re.M)
    pa_targets = re.findall(r"Print Assumptions\s+([A-Za-z0-9_'.]+)\s*\.", txt)
    blocks = [b for b in blocks if b.startswith("Closed under") or b.startswith("Axioms:")]
    for name, b in zip(pa_targets, blocks):
        if b.startswith("Closed under"):
            assumptions[name] = []
        else:
            assumptions[name] = sorted(set(re.findall(r"^([A-Za-z0-9_'.]+)\s*:", b, flags=re.M)) - {"Axioms"})
    return dict(ok=(rc == 0), theorems=theorems, examples=examples, assumptions=assumptions,
                printed=len(blocks), expected_prints=len(pa_targets), log=(out + err)[-4000:])


# --- sx parsing -------------------------------------------------------------
_TOK = re.compile(r"\(|\)|::|nil|\[|\]|;|SL|SI|-?\d+|%Z|%nat")


def parse_sx(text):
    toks = [t for t in _TOK.findall(text) if t not in ("%Z", "%nat")]
    pos = 0

    def term():
        nonlocal pos
        t = toks[pos]
        if t == "(":
            pos += 1
            v = expr()
            assert toks[pos] == ")", toks[pos - 3:pos + 3]
            pos += 1
            return v
        if t == "SI":
            pos += 1
            return ("I", term())
        if t == "SL":
            pos += 1
            return ("L", term())
        if t == "nil":
            pos += 1
            return []
        if t == "[":
            pos += 1
            items = []
            if toks[pos] == "]":
                pos += 1
                return items
            while True:
                items.append(expr())
                if toks[pos] == ";":
                    pos += 1
                    continue
                assert toks[pos] == "]"
                pos += 1
                return items
        if re.fullmatch(r"-?\d+", t):
            pos += 1
            return int(t)
        raise ValueError(f"unexpected token {t!r} at {pos}")

    def expr():
        nonlocal pos
        head = term()
        if pos < len(toks) and toks[pos] == "::":
            pos += 1
            tail = expr()
            return [head] + tail
        return head

    def conv(v):
        if isinstance(v, tuple):
            if v[0] == "I":
                return v[1]
            return [conv(x) for x in v[1]]
        raise ValueError(f"not an sx: {v!r}")

    v = expr()
    assert pos == len(toks), (pos, len(toks))
    return conv(v)


def run_model(pid, header, exprs, chunk=200, timeout=1500):
    """Evaluate Coq terms of type sx with vm_compute; returns list of parsed sx
    (or an Exception instance for a term whose file failed)."""
    work = os.path.join(ROOT, ".work", f"{pid}-model-{os.getpid()}")
    shutil.rmtree(work, ignore_errors=True)
    os.makedirs(work)
    files = []
    for k in range(0, len(exprs), chunk):
        fn = os.path.join(work, f"cases_{k // chunk}.v")
        with open(fn, "w") as f:
            f.write(header + "\nSet Printing Width 1000000.\nSet Printing Depth 1000000.\n")
            for e in exprs[k:k + chunk]:
                f.write(f"Eval vm_compute in ({e}).\n")
        files.append((fn, len(exprs[k:k + chunk])))

    def one(fc):
        fn, cnt = fc
        rc, out, err = _run(["coqc", "-Q", os.path.join(COQ, "theories"), "LW", "-w", "none", fn], cwd=work, timeout=timeout)
        res = []
        parts = re.split(r"^\s*=\s", out, flags=re.M)[1:]
        for p in parts:
            body = re.split(r"^\s*:\s*sx\s*$", p, flags=re.M)[0]
            try:
                res.append(parse_sx(body))
            except Exception as ex:  # noqa: BLE001
                res.append(RuntimeError(f"unparsable model output: {ex}: {body[:200]}"))
        if rc != 0 or len(res) != cnt:
            msg = RuntimeError(f"coqc failed on {os.path.basename(fn)} rc={rc}: {(err or out)[-600:]}")
            res = res + [msg] * (cnt - len(res))
        return res

    try:
        with ThreadPoolExecutor(max_workers=min(16, max(1, len(files)))) as ex:
            out = []
            for r in ex.map(one, files):
                out.extend(r)
    finally:
        shutil.rmtree(work, ignore_errors=True)
    return out


# ----------------------------------------------------------------------------
# Coq term helpers
# ----------------------------------------------------------------------------
def cz(i):
    i = int(i)
    return f"({i})%Z" if i < 0 else f"{i}%Z"


def cn(i):
    i = int(i)
    assert 0 <= i < 5000, i
    return f"{i}%nat"


def cb(b):
    return "true" if b else "false"


def clist(items):
    items = list(items)
    if not items:
        return "nil"
    return "(" + " :: ".join(items) + " :: nil)"


def copt(x, f):
    return "None" if x is None else f"(Some {f(x)})"


def cq(fr):
    """fractions.Fraction -> (n, d) Coq pair of Z."""
    return f"({cz(fr.numerator)}, {cz(fr.denominator)})"


# ----------------------------------------------------------------------------
# comparison
# ----------------------------------------------------------------------------
def approx_equal(a, b, tol=TOL, path=""):
    """Deep comparison; returns None if equal else a description."""
    if isinstance(a, bool) or isinstance(b, bool):
        return None if a == b else f"{path}: {a!r} != {b!r}"
    if isinstance(a, (int, float)) and isinstance(b, (int, float)):
        if isinstance(a, int) and isinstance(b, int):
            return None if a == b else f"{path}: {a} != {b}"
        if math.isnan(a) or math.isnan(b):
            return f"{path}: nan"
        return None if abs(a - b) <= tol else f"{path}: {a!r} != {b!r} (|d|={abs(a - b):.3g})"
    if isinstance(a, str) and isinstance(b, str):
        return None if a == b else f"{path}: {a!r} != {b!r}"
    if a is None or b is None:
        return None if a is b else f"{path}: {a!r} != {b!r}"
    if isinstance(a, (list, tuple)) and isinstance(b, (list, tuple)):
        if len(a) != len(b):
            return f"{path}: length {len(a)} != {len(b)}: {str(a)[:120]} vs {str(b)[:120]}"
        for k, (x, y) in enumerate(zip(a, b)):
            d = approx_equal(x, y, tol, f"{path}[{k}]")
            if d:
                return d
        return None
    if isinstance(a, dict) and isinstance(b, dict):
        if set(a) != set(b):
            return f"{path}: keys {sorted(a)} != {sorted(b)}"
        for k in a:
            d = approx_equal(a[k], b[k], tol, f"{path}.{k}")
            if d:
                return d
        return None
    return f"{path}: type {type(a).__name__} vs {type(b).__name__}: {str(a)[:80]} vs {str(b)[:80]}"


def unscale(x):
    return x / SCALE


def err_name(exc):
    return type(exc).__name__


ERR_CODES = {
    1: "ModeRangeError", 2: "TypeError", 3: "ValueError", 4: "CircuitCompilationError",
    5: "PhotonNumberError", 6: "ModeMismatchError", 7: "StateError", 8: "KeyError",
    9: "IndexError", 10: "ResultCreationError", 11: "DisplayError",
    12: "ParameterBoundsError", 13: "ParameterValueError", 14: "ParameterDictError",
    15: "SamplerError", 16: "PostSelectionError", 17: "AttributeError", 99: "OtherError",
}


def decode_res(sx, f=lambda x: x):
    """sxRes -> {'ok': payload} | {'err': name}."""
    if sx[0] == 0:
        return {"ok": f(sx[1])}
    return {"err": ERR_CODES.get(sx[1], f"code{sx[1]}")}


def guarded(fn):
    """Run an implementation call, mapping exceptions to {'err': class name}."""
    try:
        return {"ok": fn()}
    except Exception as e:  # noqa: BLE001
        return {"err": type(e).__name__}


# ----------------------------------------------------------------------------
# known findings
# ----------------------------------------------------------------------------
def load_known(pid):
    known = {}
    p = os.path.join(ROOT, "KNOWN_FINDINGS.txt")
    if os.path.exists(p):
        for line in open(p):
            m = re.match(r"known:\s+property=(\S+)\s+sig=(\S+)\s+(.*)", line.strip())
            if m and m.group(1) == pid:
                known[m.group(2)] = m.group(3)
    return known



# ----------------------------------------------------------------------------
# source fingerprints: a change in the code a property is anchored in is not a
# violation (harmless rewrites are allowed), but it is a reason to look harder:
# the quick tier then runs a multiple of its usual case budget
# ----------------------------------------------------------------------------
def _ast_fingerprint(path):
    import ast
    try:
        tree = ast.parse(open(path).read())
    except Exception:  # noqa: BLE001
        return "unparsable"
    for node in ast.walk(tree):     # docstrings are not behaviour
        if isinstance(node, (ast.FunctionDef, ast.AsyncFunctionDef, ast.ClassDef, ast.Module)) and node.body \
                and isinstance(node.body[0], ast.Expr) and isinstance(getattr(node.body[0], "value", None), ast.Constant) \
                and isinstance(node.body[0].value.value, str):
            node.body = node.body[1:] or [ast.Pass()]
    return hashlib.sha1(ast.dump(tree, include_attributes=False).encode()).hexdigest()[:16]


def anchored_files(pid):
    files = []
    try:
        for line in open(os.path.join(ROOT, "properties.jsonl")):
            p = json.loads(line)
            if p["id"] == pid:
                files = list(p.get("anchors", {}).get("files", []))
    except Exception:  # noqa: BLE001
        pass
    return files


def repo_root():
    return os.environ.get("VERIF_REPO") or "/repo"


def source_fingerprints(pid):
    return {f: _ast_fingerprint(os.path.join(repo_root(), f)) for f in anchored_files(pid)}


def source_changed(pid):
    """Files of the property's anchors whose AST differs from the recorded baseline
    (harness/source_baseline.json, regenerated by tools/source_baseline.py after every fix: commit)."""
    try:
        base = json.load(open(os.path.join(ROOT, "harness", "source_baseline.json")))
    except Exception:  # noqa: BLE001
        return []
    cur = source_fingerprints(pid)
    return sorted(f for f, h in cur.items() if base.get(f) != h)

# ----------------------------------------------------------------------------
# main driver
# ----------------------------------------------------------------------------
def _hash(obj):
    return hashlib.sha1(json.dumps(obj, sort_keys=True, default=str).encode()).hexdigest()[:12]


def write_replay(pid, payload):
    os.makedirs(os.path.join(ROOT, "replays"), exist_ok=True)
    path = os.path.join(ROOT, "replays", f"{pid}-{_hash(payload)}.json")
    with open(path, "w") as f:
        json.dump(payload, f, indent=1, default=str)
    return path


def load_corpus(pid):
    d = os.path.join(ROOT, "corpus", pid)
    cases = []
    if os.path.isdir(d):
        for fn in sorted(os.listdir(d)):
            if fn.endswith(".json"):
                c = json.load(open(os.path.join(d, fn)))
                c["_corpus"] = fn
                cases.append(c)
    return cases


def evaluate_cases(prop, cases):
    """impl + model + compare + oracle on a list of cases.
    Returns list of records dict(case, impl, model, diff, oracle)."""
    impl_obs = []
    for c in cases:
        try:
            impl_obs.append(prop.impl(c))
        except Exception as e:  # noqa: BLE001
            impl_obs.append({"harness_exception": f"{type(e).__name__}: {e}", "tb": traceback.format_exc()[-800:]})
    exprs, enc_err = [], {}
    for i, c in enumerate(cases):
        try:
            exprs.append(prop.coq_expr(c))
        except Exception as e:  # noqa: BLE001  (e.g. the implementation handed back NaN where the model needs a number)
            enc_err[i] = f"{type(e).__name__}: {e}"
            exprs.append("SL nil")
    sxs = run_model(prop.ID, prop.coq_header(), exprs, chunk=getattr(prop, "CHUNK", 200))
    recs = []
    for i, (c, io, sx) in enumerate(zip(cases, impl_obs, sxs)):
        rec = {"case": c, "impl": io, "model": None, "diff": None, "oracle": None}
        if i in enc_err:
            rec["diff"] = f"the case (with what the implementation returned) cannot be given to the model: {enc_err[i]}"
        elif isinstance(sx, Exception):
            rec["diff"] = f"model run failed: {sx}"
        else:
            try:
                mo = prop.decode(c, sx)
                rec["model"] = mo
                cmp = getattr(prop, "compare", None)
                rec["diff"] = cmp(c, io, mo) if cmp else approx_equal(io, mo)
            except Exception as e:  # noqa: BLE001
                rec["diff"] = f"decode failed: {type(e).__name__}: {e}"
        if isinstance(io, dict) and "harness_exception" in io:
            rec["diff"] = f"implementation harness raised: {io['harness_exception']}"
        else:
            try:
                rec["oracle"] = prop.oracle(c, io)
            except Exception as e:  # noqa: BLE001
                rec["oracle"] = f"oracle raised {type(e).__name__}: {e}"
        recs.append(rec)
    return recs


def evaluate_batched(prop, cases, batch=400):
    """evaluate_cases in batches; after each batch the bulky observations of records that show no failure are
    reduced by the module's optional `slim(rec)` hook (a thorough tier of several thousand histories with
    per-call snapshots of every object does not fit in memory otherwise). The non-triviality flag is computed
    before slimming and kept in rec['_nontrivial']."""
    slim = getattr(prop, "slim", None)
    if slim is None or len(cases) <= 2 * batch:
        return evaluate_cases(prop, cases)
    out = []
    for k in range(0, len(cases), batch):
        recs = evaluate_cases(prop, cases[k:k + batch])
        for r in recs:
            try:
                r["_nontrivial"] = bool(prop.nontrivial(r["case"], r["impl"]))
            except Exception:  # noqa: BLE001
                r["_nontrivial"] = False
            if not (r["diff"] or r["oracle"]):
                try:
                    slim(r)
                except Exception:  # noqa: BLE001
                    pass
        out.extend(recs)
    return out


def shrink_case(prop, case, still_fails, budget=60):
    sh = getattr(prop, "shrink", None)
    if sh is None:
        return case
    cur = case
    steps = 0
    improved = True
    while improved and steps < budget:
        improved = False
        for cand in sh(cur):
            steps += 1
            if steps > budget:
                break
            try:
                if still_fails(cand):
                    cur = cand
                    improved = True
                    break
            except Exception:  # noqa: BLE001
                continue
    return cur


def main(prop, argv=None):
    """Runs the check; a crash of the machinery itself is reported as a violation (the property is then
    not shown to hold), never as a silent non-zero exit."""
    try:
        return _main(prop, argv)
    except SystemExit:
        raise
    except BaseException as e:  # noqa: BLE001
        tb = traceback.format_exc()
        path = write_replay(prop.ID, {"property": prop.ID, "kind": "check-crashed", "what": f"{type(e).__name__}: {e}",
                                      "traceback": tb[-4000:], "theorem_or_correspondence": "the check did not complete"})
        print(tb[-1500:])
        print(f"  what: the check crashed: {type(e).__name__}: {e}")
        print(f"VIOLATION property={prop.ID} replay={path} no-failing-input-found")
        return 1


def _main(prop, argv=None):
    import argparse

    ap = argparse.ArgumentParser()
    ap.add_argument("--tier", default=os.environ.get("VERIF_TIER", "quick"))
    ap.add_argument("--seed", type=int, default=int(os.environ.get("VERIF_SEED", "0") or 0))
    ap.add_argument("--replay", default=None)
    args = ap.parse_args(argv)
    tier = "thorough" if args.tier == "thorough" else "quick"
    t0 = time.time()
    pid = prop.ID
    violations = []   # (text, replay payload, no_input_found)
    known_hits = {}
    known = load_known(pid)

    # 1. the development builds, no forbidden construct, property file re-checked
    ok, log = coq_build(pid, getattr(prop, 'COQ_TARGETS', ()))
    forb = scan_forbidden()
    if not ok:
        violations.append(("Coq development does not build", {"kind": "proof-broken", "theorem": "make", "log": log[-3000:]}, True))
        pf = dict(ok=False, theorems=[], examples=[], assumptions={}, printed=0, expected_prints=0, log="")
    else:
        pf = property_file(pid)
        if not pf["ok"]:
            violations.append((f"Properties/{pid}.v no longer checks", {"kind": "proof-broken", "theorem": f"Properties/{pid}.v", "log": pf["log"]}, True))
    if forb:
        violations.append(("forbidden construct in the development", {"kind": "forbidden", "hits": forb}, True))

    # replay mode: run the stored case only
    if args.replay:
        payload = json.load(open(args.replay))
        case = payload.get("case")
        if case is None:
            print(json.dumps(payload, indent=1)[:3000])
            return 1
        recs = evaluate_cases(prop, [case])
        r = recs[0]
        print(json.dumps({"diff": r["diff"], "oracle": r["oracle"], "impl": r["impl"], "model": r["model"]}, indent=1, default=str)[:6000])
        bad = r["diff"] or r["oracle"]
        if bad:
            print(f"VIOLATION property={pid} replay={args.replay}")
            return 1
        return 0

    # 2./3. corpus + generated cases through implementation, model and oracle
    rng = random.Random(args.seed * 1000003 + 17)
    corpus = load_corpus(pid)
    gen = prop.generate(rng, tier)
    changed_src = source_changed(pid)
    cases = corpus + gen
    t_eval = time.time()
    recs = evaluate_batched(prop, cases) if ok else []
    boosted = 0
    if ok and changed_src and tier == "quick" and not os.environ.get("VERIF_NO_BOOST"):
        # the anchored code differs from the baseline: up to triple the quick budget (another quick batch from
        # an independent PRNG state plus a slice of the thorough tier's larger cases), within a time budget
        # of about four minutes for the whole evaluation
        el = max(time.time() - t_eval, 1.0)
        room = int(len(cases) * max(0.0, 240.0 - el) / el)
        if room > 0:
            g2 = prop.generate(random.Random(args.seed * 7919 + 101), "quick")
            g3 = prop.generate(random.Random(args.seed * 104729 + 7), "thorough")[:len(gen)]
            extra = []
            for a, b in zip(g2, g3 + g2):        # interleave so that a short slice holds both kinds
                extra += [a, b]
            extra = extra[:min(room, 2 * len(gen))]
            boosted = len(extra)
            cases = cases + extra
            recs = recs + evaluate_cases(prop, extra)

    n_nontrivial = set()
    for r in recs:
        try:
            if r.get("_nontrivial") if "_nontrivial" in r else prop.nontrivial(r["case"], r["impl"]):
                n_nontrivial.add(_hash({k: v for k, v in r["case"].items() if not k.startswith("_")}))
        except Exception:  # noqa: BLE001
            pass

    def failing(c):
        rr = evaluate_cases(prop, [c])[0]
        return bool(rr["oracle"] or rr["diff"])

    seen_sigs = set()
    n_diff = n_orc = 0
    for r in recs:
        if not (r["diff"] or r["oracle"]):
            continue
        text = r["oracle"] or r["diff"]
        sigf = getattr(prop, "signature", None)
        sig = sigf(r["case"], r) if sigf else None
        if sig and sig in known:
            known_hits[sig] = known_hits.get(sig, 0) + 1
            continue
        if r["oracle"]:
            n_orc += 1
        else:
            n_diff += 1
        key = (bool(r["oracle"]), re.split(r"[:\[\d]", text or "")[0][:60])
        if key in seen_sigs or len(violations) >= 4:
            continue
        seen_sigs.add(key)
        small = r["case"]
        if len(violations) < 2:
            try:
                if r["oracle"]:
                    small = shrink_case(prop, r["case"], lambda c: bool(evaluate_oracle_only(prop, c)))
                else:
                    small = shrink_case(prop, r["case"], failing, budget=25)
            except Exception:  # noqa: BLE001
                small = r["case"]
        rr = evaluate_cases(prop, [small])[0] if small is not r["case"] else r
        if not (rr["oracle"] or rr["diff"]):
            rr = r
        payload = {
            "property": pid,
            "kind": "property-fails-on-implementation" if rr["oracle"] else "correspondence-broken",
            "what": rr["oracle"] or rr["diff"],
            "case": rr["case"], "impl": rr["impl"], "model": rr["model"],
            "theorem_or_correspondence": None if rr["oracle"] else f"model = implementation on case kind {rr['case'].get('kind')}",
        }
        violations.append((payload["what"], payload, not rr["oracle"]))

    # known findings: witnesses are replayed each run by the modules' corpus;
    for sig, txt in known.items():
        print(f"KNOWN-FINDING: property={pid} {txt} (sig={sig}, hits this run={known_hits.get(sig, 0)})")

    # evidence
    wall = time.time() - t0
    axioms = sorted({a for l in pf["assumptions"].values() for a in l})
    stats = getattr(prop, "stats", lambda cs, rs: {})(cases, recs)
    samples = [{k: v for k, v in r["case"].items() if not k.startswith("_")} for r in recs[len(corpus):len(corpus) + 3]]
    if not samples:
        samples = [{"note": "no case evaluated (build failed)"}]
    obligations = len(pf["theorems"]) + 1   # + the correspondence obligation
    discharged = (len(pf["theorems"]) if pf["ok"] and pf["printed"] >= pf["expected_prints"] else 0) + (1 if ok and n_diff == 0 and recs else 0)
    ev = {
        "property_id": pid, "tier": tier, "seed": args.seed, "level": "proof",
        "coverage": {
            "obligations": obligations, "discharged": discharged,
            "checker_cmd": f"cd /verif/coq && bash build.sh && coqc -Q theories LW theories/Properties/{pid}.v",
            "trusted_base": [
                "Coq 8.16.1 kernel incl. vm_compute (no native_compute)",
                "axioms reported by Print Assumptions: " + (", ".join(axioms) if axioms else "none (closed under the global context)"),
                "hand-written Gallina model tied to /repo by the correspondence run of this check (harness/" + pid.lower() + ".py); exact rational arithmetic vs Python floats at 1e-9",
                "CPython, numpy/scipy and the other packages in /venv",
            ] + list(getattr(prop, "TRUSTED", [])),
            "theorems": pf["theorems"], "examples": pf["examples"],
            "assumptions_per_theorem": pf["assumptions"],
            "evaluations": len(recs), "distinct_nontrivial": len(n_nontrivial),
            "rule": prop.RULE, "samples": samples,
            "corpus_cases": len(corpus), "correspondence_disagreements": n_diff,
            "oracle_failures": n_orc, "known_finding_hits": known_hits,
            "distribution": stats,
            "anchored_source_changed_since_baseline": changed_src,
            "case_budget": (f"standard + {boosted} extra cases (anchored source differs from harness/source_baseline.json)" if boosted else "standard"),
        },
        "assumptions": list(getattr(prop, "ASSUMPTIONS", [])),
        "wall_s": round(wall, 2), "violations": len(violations),
    }
    # a run against a scratch copy (VERIF_REPO, used for mutation testing) must not overwrite the
    # evidence of the real tree
    scratch = os.environ.get("VERIF_REPO") not in (None, "", "/repo")
    evdir = os.path.join(ROOT, ".work", "evidence-scratch") if scratch else os.path.join(ROOT, "evidence")
    os.makedirs(evdir, exist_ok=True)
    with open(os.path.join(evdir, f"{pid}.json"), "w") as f:
        json.dump(ev, f, indent=1, default=str)

    print(f"[{pid}] tier={tier} seed={args.seed} theorems={len(pf['theorems'])} cases={len(recs)} "
          f"nontrivial={len(n_nontrivial)} diffs={n_diff} oracle_failures={n_orc} wall={wall:.1f}s")
    if violations:
        for text, payload, noinput in violations:
            path = write_replay(pid, payload)
            print(f"  what: {str(text)[:300]}")
            print(f"VIOLATION property={pid} replay={path}" + (" no-failing-input-found" if noinput else ""))
        return 1
    return 0


def evaluate_oracle_only(prop, case):
    try:
        io = prop.impl(case)
    except Exception as e:  # noqa: BLE001
        return f"impl raised {e}"
    return prop.oracle(case, io)
