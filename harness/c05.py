"""C05 — Simulator, Sampler, Analyzer and QuickSampler tell one consistent story."""
from __future__ import annotations

import copy
import math
import sys
import warnings
from collections import Counter

import numpy as np

import core
import circgen as cg
import fockgen as fg
from core import cb, clist, cn, copt, cz

import lightworks as lw
from lightworks import emulator

EPS = 1e-9          # settings.sampler_probability_threshold
OTHER = {"RuntimeError", "EmulatorError", "RecursionError"}     # classes outside the shared enum

# Python post-selection functions (PostSelectionFunction); the model receives the table of
# candidate states the function accepts.  Both classes call validate() on a plain list.
FUNS = {
    "le1": lambda s: max(s) <= 1,
    "first0": lambda s: s[0] == 0,
    "edge": lambda s: s[0] + s[-1] >= 1,
    "even": lambda s: sum(s[::2]) % 2 == 0,
    "lastlt2": lambda s: s[-1] < 2,
    "never": lambda s: False,
}


def guard(fn):
    try:
        return {"ok": fn()}
    except Exception as e:  # noqa: BLE001
        name = type(e).__name__
        return {"err": "OtherError" if name in OTHER else name}


def mk_psel(ps, forms=None):
    """forms: how the same rules are written down - bare ints for singletons, lists instead of tuples,
    multi_rules=False when no two rules share a mode"""
    if ps is None:
        return None
    if "rules" in ps:
        forms = forms or {}
        allm = [m for ms, _ in ps["rules"] for m in ms]
        disjoint = len(set(allm)) == len(allm)
        p = lw.PostSelection(multi_rules=not (forms.get("single") and disjoint))
        seq = list if forms.get("lists") else tuple
        for ms, ns in ps["rules"]:
            a = ms[0] if (forms.get("ints") and len(ms) == 1) else seq(ms)
            b = ns[0] if (forms.get("ints") and len(ns) == 1) else seq(ns)
            p.add(a, b)
        return p
    return FUNS[ps["fun"]]


def ref_psel(ps, s):
    """reference evaluation on a list; raises IndexError like the implementation."""
    if ps is None:
        return True
    if "rules" in ps:
        for ms, ns in ps["rules"]:
            if sum(s[m] for m in ms) not in ns:
                return False
        return True
    return bool(FUNS[ps["fun"]](list(s)))


def psel_can_raise(ps, m):
    return ps is not None and "rules" in ps and any(x >= m for ms, _ in ps["rules"] for x in ms)


def mk_expected(exp):
    if exp is None:
        return None
    d = {}
    for k, v in exp:
        if "one" in v:
            d[lw.State(list(k))] = lw.State(list(v["one"]))
        else:
            d[lw.State(list(k))] = [lw.State(list(x)) for x in v["many"]]
    return d


def exp_list(v):
    return [v["one"]] if "one" in v else v["many"]


def remove_modes(s, modes):
    ms = set(modes)
    return [x for i, x in enumerate(s) if i not in ms]


class C05:
    ID = "C05"
    RULE = ("random circuit trees (fockgen: nested heralded sub-circuits, 0-4 loss elements, lossless too; heralds as generated "
            "[0-2 photons, input mode != output mode], or forced to carry 1-2 photons, or output modes moved away from the input modes, or forced to equal modes, or forced to zero photons on equal modes) x "
            "post-selection (none / PostSelection rule sets on random mode tuples / Python functions) x 1-3 inputs of equal photon "
            "number (<= 3 photons incl. heralds in the quick tier) x expected mappings (single State, lists, outputs that are filtered "
            "away, none) x QuickSampler with photon_counting True and False; plus a malformed stream (wrong length, negative entry, "
            "unequal photon numbers, empty input list, missing key in expected, rule on a mode out of range, post-selection that removes "
            "everything); histories on the answering Analyzer / QuickSampler (other requests first, rejected requests first, created before "
            "the circuit was completed, re-pointed / re-configured with the setters, defaults of a discarded object edited), API forms (single "
            "State, bare ints / lists / tuples in rules, multi_rules on/off, expected mapping with extra keys). Non-trivial = Analyzer returned >= 2 outputs for >= 2 photons in total, or a heralded / post-selected / lossy "
            "configuration; distinct = distinct JSON")
    COQ_TARGETS = ["theories/Exec/RunFock.vo"]
    CHUNK = 15
    TRUSTED = ["thewalrus.perm is the mathematical permanent (C03's oracle recomputes it by direct expansion)",
               "Python post-selection functions reach the model as the table of candidate states they accept",
               "RuntimeError / EmulatorError / RecursionError are compared as the class OtherError (not in the shared enum)"]
    ASSUMPTIONS = ["settings.sampler_probability_threshold = 1e-9 (default); theorems about the Sampler are stated for threshold 0",
                   "error_rate: a zero row of the analyzer array gives nan in the code (no guard); compared as nan, skipped when a row total < 1e-6",
                   "a state repeated inside an `expected` list counts once: the oracle uses the SET of expected outputs"]

    # ------------------------------------------------------------------ generation
    def _support(self, prog, cid, inp):
        """steering only: loss-free heralded outputs of non-negligible probability, by the independent permanent."""
        try:
            _, pool = cg.run_impl(prog)
            circ = pool[cid]
            U = circ.U_full
            n, m = circ.n_modes, circ.input_modes
            loss = U.shape[0] - n
            fin = fg.full_state(inp, circ.heralds["input"], loss)
            sup = []
            for o in fg.fock_states(m, sum(inp)):
                fo = fg.full_state(o, circ.heralds["output"], loss)
                if abs(fg.amplitude_ref(U, fin, fo)) ** 2 > 1e-6:
                    sup.append(o)
            return sup
        except Exception:  # noqa: BLE001
            return []

    def _gen_psel(self, rng, m, target):
        """mostly satisfiable: the rules are drawn so that the state `target` passes them."""
        r = rng.random()
        if r < 0.3:
            return None
        if r < 0.75:
            rules = []
            for _ in range(rng.randint(1, 2)):
                ms = sorted(set(rng.randrange(m) for _ in range(rng.randint(1, 2))))
                ns = set(rng.randint(0, 2) for _ in range(rng.randint(0, 1)))
                if target is not None and rng.random() < 0.85:
                    ns.add(sum(target[x] for x in ms))
                elif not ns:
                    ns.add(rng.randint(0, 2))
                rules.append([ms, sorted(ns)])
            return dict(rules=rules)
        names = ["le1", "first0", "edge", "even", "lastlt2"]
        if target is not None and rng.random() < 0.85:
            ok = [k for k in names if FUNS[k](list(target))]
            if ok:
                return dict(fun=rng.choice(ok))
        return dict(fun=rng.choice(names))

    def generate(self, rng, tier):
        quick = tier == "quick"
        n = 900 if quick else 18000
        maxph = 3 if quick else 4
        cases = []
        for i in range(n):
            lossy = [True, False, None, True, False][i % 5]
            for _ in range(6):
                prog, cid, m, hp = fg.gen_circuit(rng, tier, max_herald_photons=2, lossy=lossy, max_dim=7 if quick else 9)
                if m >= 2 or rng.random() < 0.15:
                    break
            prog = copy.deepcopy(prog)
            variant = ["asis", "photons", "eqmodes", "moved", "zero", "photons", "moved"][i % 7]
            her = [o for o in prog if o[0] == "herald"]
            if variant in ("zero", "eqmodes"):
                for o in her:
                    o[4] = None
                    if variant == "zero":
                        o[2] = 0
            elif variant == "moved" and her:
                # heralds whose input mode differs from the output mode: output modes of a circuit's heralds
                # are shifted cyclically; a single herald moves to another mode of its circuit
                size = {o[1]: o[2] for o in prog if o[0] in ("new", "unitary")}
                for cid_ in sorted({o[1] for o in her}):
                    grp = [o for o in her if o[1] == cid_]
                    ims = [o[3] for o in grp]
                    if len(grp) >= 2:
                        for o, om in zip(grp, ims[1:] + ims[:1]):
                            o[4] = om
                    else:
                        others = [q for q in range(size.get(cid_, 1)) if q != ims[0]]
                        if others:
                            grp[0][4] = rng.choice(others)
                # and one more moved herald on the final circuit itself when it has room
                used_in = {o[3] for o in her if o[1] == cid}
                used_out = {(o[3] if o[4] is None else o[4]) for o in her if o[1] == cid}
                free_in = [q for q in range(size.get(cid, 0)) if q not in used_in]
                free_out = [q for q in range(size.get(cid, 0)) if q not in used_out]
                if len(free_in) >= 3 and rng.random() < 0.7:
                    im = rng.choice(free_in)
                    oms = [q for q in free_out if q != im]
                    if oms:
                        extra = ["herald", cid, rng.choice([0, 1, 1]), im, rng.choice(oms)]
                        prog.append(extra)
                        her.append(extra)
            elif variant == "photons" and her:
                # make sure some heralds carry photons (at most 2 in total), on whatever modes were generated
                for o in her:
                    o[2] = 0
                pick = rng.sample(her, min(len(her), rng.choice([1, 1, 2])))
                if len(pick) == 1:
                    pick[0][2] = rng.choice([1, 1, 2])
                else:
                    for o in pick:
                        o[2] = 1
            hp = sum(o[2] for o in her)
            try:                                   # the final circuit decides (failed ops are skipped by run_impl)
                circ_ = cg.run_impl(prog)[1][cid]
                m = circ_.input_modes
                hp = sum(circ_.heralds["input"].values())
            except Exception:  # noqa: BLE001
                pass
            photons = max(0, min(rng.choice([0, 1, 1, 2, 2, 2, 3, 3]), maxph - hp))
            k = rng.choice([1, 1, 2, 3])
            inputs = []
            while len(inputs) < k:
                s = fg.gen_state(rng, m, photons)
                if s not in inputs or rng.random() < 0.2:
                    inputs.append(s)
            sup = self._support(prog, cid, inputs[0])
            target = rng.choice(sup) if sup else None
            psel = self._gen_psel(rng, m, target)
            # expected mapping
            exp = None
            if rng.random() < 0.7:
                exp = []
                seen = []
                for s in inputs:
                    if s in seen:
                        continue
                    seen.append(s)
                    vals = []
                    for _ in range(rng.choice([1, 1, 2, 3])):
                        if sup and rng.random() < 0.6:
                            v = list(rng.choice(sup))
                        else:
                            ph = photons if rng.random() < 0.8 else max(0, photons - 1)
                            v = fg.gen_state(rng, m, ph)
                        if v not in vals or rng.random() < 0.1:
                            vals.append(v)
                    if len(vals) == 1 and rng.random() < 0.6:
                        exp.append([s, {"one": vals[0]}])
                    else:
                        exp.append([s, {"many": vals}])
            case = dict(kind="ok", variant=variant, prog=prog, cid=cid, psel=psel, inputs=inputs, expected=exp,
                        qins=inputs[:2] if rng.random() < 0.3 else inputs[:1])
            # histories on the ONE Analyzer / QuickSampler that answers (the observed call is the last one) and API forms
            #   Analyzer: twice (answered another request - other photon number, other post-selection, with an expected
            #   mapping - first), exc (two rejected requests first), early (created and used as soon as the circuit object
            #   exists, the program then edits the circuit in place), setter (created for another circuit, re-pointed)
            #   QuickSampler: twice (read with the other detector mode and no post-selection first, then re-configured
            #   with the setters), exc (a post-selection that removes everything first: failing read), early, setters
            #   (created with defaults, everything assigned afterwards)
            case["ahist"] = [None, "twice", "exc", "early", "setter", "twice"][i % 6]
            case["qhist"] = [None, "twice", "exc", "early", "setters"][i % 5]
            case["adecoy"] = fg.gen_state(rng, m, photons + 1 if photons == 0 else photons - 1)
            case["forms"] = dict(ints=rng.random() < 0.4, lists=rng.random() < 0.3, single=rng.random() < 0.4,
                                 bare=rng.random() < 0.5)
            if exp is not None and rng.random() < 0.15:
                # the expected mapping may cover more inputs than are analysed
                extra = fg.gen_state(rng, m, photons)
                if extra not in [e[0] for e in exp] and extra not in inputs:
                    exp.append([extra, {"one": fg.gen_state(rng, m, photons)}])
            if i % 7 == 6:
                self._malform(rng, case, m, photons)
            cases.append(case)
        return cases

    def _malform(self, rng, c, m, photons):
        r = rng.randrange(8)
        c["kind"] = ["wrong_length", "negative", "unequal_photons", "empty_inputs", "expected_missing_key",
                     "rule_out_of_range", "psel_removes_all", "wrong_length_later"][r]
        ins = c["inputs"]
        if r == 0:
            ins[0] = ins[0] + [0]
        elif r == 1:
            ins[-1] = list(ins[-1])
            ins[-1][0] = -1
            if len(ins[-1]) > 1:
                ins[-1][-1] += 1
        elif r == 2:
            ins.append(fg.gen_state(rng, m, photons + 1))
        elif r == 3:
            c["inputs"] = []
            c["qins"] = []
        elif r == 4:
            if c["expected"] is None or len(c["expected"]) == 0:
                c["expected"] = []
            else:
                c["expected"] = c["expected"][1:]
        elif r == 5:
            c["psel"] = dict(rules=[[[0], [0, 1, 2, 3]], [[m], [0, 1]]])
        elif r == 6:
            c["psel"] = rng.choice([dict(fun="never"), dict(rules=[[[0], [7]]])])
        else:
            ins.append(ins[0][:-1])
        if r != 3:
            c["qins"] = [c["inputs"][0], c["inputs"][-1]]

    # ------------------------------------------------------------------ implementation
    def _circuit(self, c):
        _, pool = cg.run_impl(c["prog"])
        return pool[c["cid"]]

    def _analyze(self, circ, c, early=None):
        forms = c.get("forms") or {}
        hist = c.get("ahist")
        # a default-constructed Analyzer whose default post-selection object is edited (if it can be) and thrown away
        try:
            d0 = emulator.Analyzer(circ)
            if hasattr(d0.post_selection, "add"):
                d0.post_selection.add(0, 7)
        except Exception:  # noqa: BLE001
            pass
        if early is not None:
            a = early
        elif hist == "setter":
            other = lw.Circuit(circ.input_modes + 1)
            other.bs(0)
            a = emulator.Analyzer(other)
            try:
                a.analyze(lw.State([1] + [0] * circ.input_modes))
            except Exception:  # noqa: BLE001
                pass
            a.circuit = circ
        else:
            a = emulator.Analyzer(circ)
        with warnings.catch_warnings():
            warnings.simplefilter("ignore")
            if hist == "twice" and c.get("adecoy") is not None:
                try:
                    d = lw.State(list(c["adecoy"]))
                    a.post_selection = None if c["psel"] is not None else mk_psel(dict(rules=[[[0], [0, 1, 2, 3]]]))
                    a.analyze([d], {d: d})
                except Exception:  # noqa: BLE001
                    pass
            elif hist == "exc" and c["inputs"]:
                for bad in ([lw.State(list(c["inputs"][0]) + [0])],
                            [lw.State(list(c["inputs"][0])), lw.State([sum(c["inputs"][0]) + 1] + [0] * (len(c["inputs"][0]) - 1))],
                            [lw.State(list(c["inputs"][0])), lw.State([sum(c["inputs"][0])] + [0] * len(c["inputs"][0]))]):
                    try:
                        a.analyze(bad)
                    except Exception:  # noqa: BLE001
                        pass
            a.post_selection = mk_psel(c["psel"], forms)
            ins = [lw.State(list(s)) for s in c["inputs"]]
            res = a.analyze(ins[0] if (len(ins) == 1 and forms.get("bare")) else ins, mk_expected(c["expected"]))
        arr = np.asarray(res.array)
        if hasattr(res, "error_rate"):
            er = float(res.error_rate)
            er = [0] if math.isnan(er) else [1, er]
        else:
            er = []
        return [[list(s) for s in res.outputs], [[float(x) for x in row] for row in arr], float(res.performance), er]

    def _quick(self, circ, q, pc, psel, c=None, early=None, pre=None):
        c = c or {}
        forms = c.get("forms") or {}
        hist = c.get("qhist")
        # a default-constructed QuickSampler whose defaults are changed in place and which is thrown away
        try:
            d0 = emulator.QuickSampler(circ, lw.State(list(q)))
            if hasattr(d0.post_select, "add"):
                d0.post_select.add(0, 7)
            d0.photon_counting = False
        except Exception:  # noqa: BLE001
            pass
        if early is not None:
            # created with the final settings before the circuit was completed: only what no longer fits is re-assigned
            qs = early
            if list(qs.input_state) != list(q) or len(q) != circ.input_modes:
                qs.input_state = lw.State(list(q))
            return [[list(k), float(v)] for k, v in qs.probability_distribution.items()]
        if psel is not None and "rules" in psel and len(psel["rules"]) >= 1 and (len(psel["rules"]) + len(q) + int(pc)) % 2 == 0:
            # history: the sampler is first read with all rules but the last, the last rule is then added IN PLACE
            # to the attached PostSelection object - the distribution must be the conditioned Sampler
            # distribution for the rules the object has NOW
            p = lw.PostSelection(multi_rules=True)
            for ms, ns in psel["rules"][:-1]:
                p.add(tuple(ms), tuple(ns))
            qs = emulator.QuickSampler(circ, lw.State(list(q)), photon_counting=pc, post_select=p)
            try:
                qs.probability_distribution  # noqa: B018
            except Exception:  # noqa: BLE001   (the outcome of the first read is not what this case observes)
                pass
            ms, ns = psel["rules"][-1]
            p.add(tuple(ms), tuple(ns))
            return [[list(k), float(v)] for k, v in qs.probability_distribution.items()]
        if hist in ("twice", "exc", "setters"):
            if hist == "setters":
                qs = emulator.QuickSampler(circ, lw.State(list(q)))
            elif hist == "twice":
                # only the detector mode differs from the final configuration (same post-selection object throughout)
                qs = emulator.QuickSampler(circ, lw.State(list(q)), photon_counting=not pc, post_select=mk_psel(psel, forms))
            else:
                # the real configuration is read first, then a post-selection that accepts nothing is attached:
                # both reads in that configuration must fail (there is no distribution to report)
                qs = emulator.QuickSampler(circ, lw.State(list(q)), photon_counting=pc, post_select=mk_psel(psel, forms))
                try:
                    qs.probability_distribution  # noqa: B018
                except Exception:  # noqa: BLE001
                    pass
                qs.post_select = FUNS["never"]
            if hist != "setters":
                for _ in range(2):
                    try:
                        qs.probability_distribution  # noqa: B018
                        if pre is not None and hist == "exc":
                            pre.append("ok")
                    except Exception:  # noqa: BLE001
                        pass
            if hist != "twice":
                qs.post_select = mk_psel(psel, forms)
            qs.photon_counting = pc
            return [[list(k), float(v)] for k, v in qs.probability_distribution.items()]
        qs = emulator.QuickSampler(circ, lw.State(list(q)), photon_counting=pc, post_select=mk_psel(psel, forms))
        return [[list(k), float(v)] for k, v in qs.probability_distribution.items()]

    def impl(self, c):
        early = {}

        def on_step(pool, op, out, before):
            if not early and op[0] in ("new", "unitary", "copy", "plus") and op[1] == c["cid"] and c["cid"] in pool:
                early["seen"] = True
                circ0 = pool[c["cid"]]
                m0 = circ0.input_modes
                if c.get("ahist") == "early":
                    try:
                        early["an"] = emulator.Analyzer(circ0)
                        early["an"].analyze(lw.State([1] + [0] * (m0 - 1)))
                    except Exception:  # noqa: BLE001
                        pass
                if c.get("qhist") == "early":
                    for qi, q in enumerate(c["qins"]):
                        for pc in (True, False):
                            try:
                                fits = len(q) == m0 and all(isinstance(x, int) and x >= 0 for x in q)
                                qs = emulator.QuickSampler(circ0, lw.State(list(q) if fits else [1] + [0] * (m0 - 1)),
                                                           photon_counting=pc, post_select=mk_psel(c["psel"], c.get("forms")))
                                try:
                                    qs.probability_distribution  # noqa: B018
                                except Exception:  # noqa: BLE001
                                    pass
                                early[(qi, pc)] = qs
                            except Exception:  # noqa: BLE001
                                pass

        def on_step_all(pool, op, out, before):
            on_step(pool, op, out, before)
            # the early Analyzer keeps answering requests (the case's own inputs where they fit) while the rest of the
            # program modifies the circuit in place: what it answered for the circuit as it was must not linger
            an0 = early.get("an")
            if an0 is not None and op[0] not in ("new", "unitary", "copy", "plus") and op[1] == c["cid"] and c["cid"] in pool:
                try:
                    m0 = pool[c["cid"]].input_modes
                    fit = [lw.State(list(s)) for s in c["inputs"]
                           if len(s) == m0 and all(isinstance(x, int) and x >= 0 for x in s)]
                    with warnings.catch_warnings():
                        warnings.simplefilter("ignore")
                        an0.analyze(fit if fit else lw.State([1] + [0] * (m0 - 1)))
                except Exception:  # noqa: BLE001
                    pass

        if c.get("ahist") == "early" or c.get("qhist") == "early":
            _, pool = cg.run_impl(c["prog"], on_step=on_step_all, want=lambda op: [])
            circ = pool[c["cid"]]
        else:
            circ = self._circuit(c)
        an = guard(lambda: self._analyze(circ, c, early.get("an")))
        qs = []
        for qi, q in enumerate(c["qins"]):
            pair = []
            for pc in (True, False):
                pre = []
                r = guard(lambda q=q, pc=pc, qi=qi, pre=pre: self._quick(circ, q, pc, c["psel"], c, early.get((qi, pc)), pre))
                if pre:
                    r["pre"] = pre
                pair.append(r)
            qs.append(pair)
        return {"an": an, "qs": qs}

    # ------------------------------------------------------------------ model
    def coq_header(self):
        return cg.COQ_HEADER + "From LW Require Import Model.State Model.PostSel Model.Fock Model.Analyzer Exec.RunFock Exec.RunC05.\n"

    def _table(self, c):
        """states of the right length (any photon number the model may enumerate) accepted by the Python function."""
        circ = self._circuit(c)
        m = circ.input_modes
        hp = sum(circ.heralds["input"].values())
        top = max([sum(max(x, 0) for x in s) for s in c["inputs"]] + [0]) + hp
        f = FUNS[c["psel"]["fun"]]
        acc = []
        for k in range(top + 1):
            for s in fg.fock_states(m, k):
                if f(list(s)):
                    acc.append(s)
        return acc

    def coq_expr(self, c):
        zl = lambda l: clist(cz(x) for x in l)  # noqa: E731
        prog = clist("(" + cg.op_to_coq(o) + ")" for o in c["prog"])
        ps = c["psel"]
        if ps is None:
            pst = "P5None"
        elif "rules" in ps:
            pst = "(P5Rules " + clist(f"(mkRule {clist(cn(x) for x in ms)} {zl(ns)})" for ms, ns in ps["rules"]) + ")"
        else:
            pst = "(P5Table " + clist(zl(s) for s in self._table(c)) + ")"
        ins = clist(zl(s) for s in c["inputs"])
        exp = copt(c["expected"], lambda e: clist(f"({zl(k)}, {clist(zl(x) for x in exp_list(v))})" for k, v in e))
        qins = clist(zl(s) for s in c["qins"])
        return f"run_c05 {prog} {cn(c['cid'])} {pst} {ins} {exp} {qins}"

    def decode(self, c, sx):
        def f_an(p):
            outs, rows, perf, er = p
            er = [] if er == [] else ([0] if er[0] == 0 else [1, er[1] / 1e12])
            return [outs, [[x / 1e12 for x in row] for row in rows], perf / 1e12, er]

        def f_qs(p):
            return [[s, v / 1e12] for s, v in p]

        an = core.decode_res(sx[0], f_an)
        qs = [[core.decode_res(r, f_qs) for r in pair] for pair in sx[1]]
        return {"an": an, "qs": qs}

    def compare(self, c, a, b):
        x, y = a["an"], b["an"]
        if ("ok" in x) != ("ok" in y) or ("err" in x and x["err"] != y["err"]):
            return f"analyzer: implementation {x if 'err' in x else 'ok'} vs model {y if 'err' in y else 'ok'}"
        if "ok" in x:
            xo, xa, xp, xe = x["ok"]
            yo, ya, yp, ye = y["ok"]
            if xo != yo:
                return f"analyzer outputs differ: {xo} vs model {yo}"
            d = core.approx_equal(xa, ya, 1e-9, "array") or core.approx_equal(xp, yp, 1e-9, "performance")
            if d:
                return "analyzer " + d
            mint = min((sum(r) for r in xa), default=1.0)
            if (xe == []) != (ye == []):
                return f"analyzer error_rate presence: {xe} vs model {ye}"
            if xe and mint >= 1e-6:
                if xe[0] != ye[0]:
                    return f"analyzer error_rate {xe} vs model {ye}"
                if xe[0] == 1 and abs(xe[1] - ye[1]) > 1e-8:
                    return f"analyzer error_rate {xe[1]!r} vs model {ye[1]!r}"
        for qi, (px, py) in enumerate(zip(a["qs"], b["qs"])):
            for pc, u, v in zip((True, False), px, py):
                tag = f"quick sampler (input {c['qins'][qi]}, photon_counting={pc})"
                if ("ok" in u) != ("ok" in v) or ("err" in u and u["err"] != v["err"]):
                    return f"{tag}: implementation {u if 'err' in u else 'ok'} vs model {v if 'err' in v else 'ok'}"
                if "ok" in u:
                    if [s for s, _ in u["ok"]] != [s for s, _ in v["ok"]]:
                        return f"{tag}: keys {[s for s, _ in u['ok']]} vs model {[s for s, _ in v['ok']]}"
                    for (s, p), (_, q) in zip(u["ok"], v["ok"]):
                        if abs(p - q) > 1e-8:
                            return f"{tag}: P{s} = {p!r} vs model {q!r}"
        if len(a["qs"]) != len(b["qs"]):
            return "quick sampler: number of results differs"
        return None

    # ------------------------------------------------------------------ oracle
    def _sampler(self, circ, s, backend):
        d = emulator.Sampler(circ, lw.State(list(s)), backend=backend).probability_distribution
        return {tuple(k.s): float(v) for k, v in d.items()}

    def oracle(self, c, obs):
        """every sub-claim is evaluated; failures other than the Analyzer's refusal of photon-carrying / moved heralds come first."""
        circ = self._circuit(c)
        try:
            U = circ.U_full
        except Exception:  # noqa: BLE001
            return None
        n, m = circ.n_modes, circ.input_modes
        loss = U.shape[0] - n
        hin, hout = dict(circ.heralds["input"]), dict(circ.heralds["output"])
        hp = sum(hin.values())
        ins = c["inputs"]
        # --- what the Simulator says about (circuit, inputs)
        sim = guard(lambda: emulator.Simulator(circ).simulate([lw.State(list(s)) for s in ins]))
        if "ok" not in sim:
            return None          # the malformed stream is judged by the correspondence only
        N = sum(ins[0])
        nfull = len(fg.fock_states(U.shape[0], N + hp))
        tol = EPS * nfull + 2e-9
        # --- Sampler accepts what the Simulator accepts (both back ends)
        samp = []
        for s in ins:
            r = guard(lambda s=s: (self._sampler(circ, s, "permanent"), self._sampler(circ, s, "slos")))
            if "ok" not in r:
                return f"Sampler raises {r['err']} on input {s}, which the Simulator accepts"
            samp.append(r["ok"])
        ctx = dict(circ=circ, n=n, m=m, loss=loss, hin=hin, hout=hout, hp=hp, ins=ins, N=N, tol=tol, samp=samp,
                   sim=sim["ok"], full_out=lambda o: tuple(fg.full_state(o, hout, 0)))
        fails = []
        for part in (self._o_simulator, self._o_quick, self._o_analyzer):
            try:
                f = part(c, obs, ctx)
            except Exception as e:  # noqa: BLE001
                f = f"oracle part {part.__name__} raised {type(e).__name__}: {e}"
            if f:
                fails.append(f)
        return " ;; ".join(fails) if fails else None

    def _o_simulator(self, c, obs, x):
        """squared Simulator amplitudes = Sampler probabilities (lossless)."""
        if x["loss"] != 0:
            return None
        sres, ins, samp, full_out, tol = x["sim"], x["ins"], x["samp"], x["full_out"], x["tol"]
        arr = np.asarray(sres.array)
        for i, s in enumerate(ins):
            for j, o in enumerate(sres.outputs):
                p2 = abs(arr[i, j]) ** 2
                for b in (0, 1):
                    ps_ = samp[i][b].get(full_out(list(o)), 0.0)
                    if abs(p2 - ps_) > tol:
                        return (f"lossless circuit: |Simulator amplitude|^2 {s}->{list(o)} = {p2!r} but Sampler "
                                f"({('permanent', 'slos')[b]}) gives {ps_!r}")
        return None

    def _o_analyzer(self, c, obs, x):
        ps = c["psel"]
        ins, samp, full_out, tol = x["ins"], x["samp"], x["full_out"], x["tol"]
        m, loss, N, hp, hin, hout = x["m"], x["loss"], x["N"], x["hp"], x["hin"], x["hout"]
        an = obs["an"]
        # --- candidate outputs and post-selection by hand
        cand = []
        for k in ([N] if loss == 0 else range(N + 1)):
            cand += fg.fock_states(m, k)
        raises = psel_can_raise(ps, m)
        try:
            accepted = [o for o in cand if ref_psel(ps, o)]
        except IndexError:
            accepted = None
        if "ok" not in an:
            if raises and an["err"] == "IndexError":
                return None
            if accepted is not None and not accepted and an["err"] == "ValueError":
                return None        # documented: no output passes the post-selection
            if c["expected"] is not None and any(s not in [k for k, _ in c["expected"]] for s in ins) and an["err"] == "KeyError":
                return None        # documented: expected must cover every input
            why = []
            if hp > 0:
                why.append("heralds carry photons")
            if hin != hout:
                why.append("herald input mode != output mode")
            return (f"Analyzer raises {an['err']} on a circuit/input the Simulator and Sampler accept"
                    + (f" ({', '.join(why)})" if why else ""))
        return self._an_values(c, x, accepted, *an["ok"])

    def _an_values(self, c, x, accepted, outs, arr, perf, er):
        ins, samp, full_out, tol = x["ins"], x["samp"], x["full_out"], x["tol"]
        if accepted is not None:
            if sorted(map(tuple, outs)) != sorted(map(tuple, accepted)) or len(outs) != len(accepted):
                return f"Analyzer outputs {outs} are not exactly the outputs passing the post-selection {accepted}"
        rowtot = []
        for i, s in enumerate(ins):
            ref = [samp[i][0].get(full_out(o), 0.0) for o in outs]
            for j, o in enumerate(outs):
                for b in (0, 1):
                    r = samp[i][b].get(full_out(o), 0.0)
                    if abs(arr[i][j] - r) > tol:
                        return (f"Analyzer P({s}->{o}) = {arr[i][j]!r} but Sampler.probability_distribution"
                                f"[{list(full_out(o))}] = {r!r} ({('permanent', 'slos')[b]})")
            rowtot.append(sum(ref))
        pref = sum(rowtot) / len(ins)
        if abs(perf - pref) > tol * max(1, len(outs)):
            return f"Analyzer performance {perf!r}, mean accepted total from the Sampler {pref!r}"
        if c["expected"] is not None:
            if er == []:
                return "expected mapping given but the result has no error_rate"
            emap = {tuple(k): exp_list(v) for k, v in c["expected"]}
            if min(rowtot) >= 1e-6:
                fr = []
                for i, s in enumerate(ins):
                    want = {tuple(o) for o in emap[tuple(s)]}        # a SET of expected outputs
                    good = sum(samp[i][0].get(full_out(list(o)), 0.0) for o in want if list(o) in outs)
                    fr.append(good / rowtot[i])
                eref = 1 - sum(fr) / len(fr)
                if er[0] != 1 or abs(er[1] - eref) > 1e-7 + tol * len(outs) / min(rowtot):
                    dup = any(len(set(map(tuple, v))) != len(v) for v in emap.values())
                    return (f"Analyzer error_rate {er}, one minus the accepted-and-expected fraction from the Sampler {eref!r}"
                            + (" (an expected list repeats a state)" if dup else ""))
        elif er != []:
            return "no expected mapping given but the result carries an error_rate"
        return None

    def _o_quick(self, c, obs, x):
        """QuickSampler = Sampler conditioned on heralds, post-selection, no loss (<= 1 photon per mode), renormalised."""
        ps = c["psel"]
        ins, samp, hin, hout, m = x["ins"], x["samp"], x["hin"], x["hout"], x["m"]
        raises = psel_can_raise(ps, m)
        for qi, q in enumerate(c["qins"]):
            if q not in ins:
                continue
            i = ins.index(q)
            fin = fg.full_state(q, hin, 0)
            for pc, r in zip((True, False), obs["qs"][qi]):
                cond = {}
                bad = False
                for full, p in samp[i][0].items():
                    if any(full[k] != v for k, v in hout.items()) or sum(full) != sum(fin):
                        continue
                    red = remove_modes(full, hout)
                    if not pc and max(red) > 1:
                        continue
                    try:
                        if not ref_psel(ps, red):
                            continue
                    except IndexError:
                        bad = True
                        break
                    cond[tuple(red)] = cond.get(tuple(red), 0.0) + p
                if bad:
                    continue
                tot = sum(cond.values())
                tag = f"QuickSampler(input {q}, photon_counting={pc})"
                if r.get("pre"):
                    return f"{tag} returned a distribution while a post-selection that accepts no state was attached"
                if "ok" not in r:
                    if raises and r["err"] == "IndexError":
                        continue
                    if tot > 1e-6:
                        return (f"{tag} raises {r['err']} although the Sampler gives the heralded, post-selected, "
                                f"loss-free outputs a total probability {tot!r}")
                    continue
                if tot < 1e-6:
                    continue
                got = {tuple(s): p for s, p in r["ok"]}
                rtol = (2 * EPS * max(1, len(cond)) + 2e-9) / tot
                for k in set(got) | set(cond):
                    if abs(got.get(k, 0.0) - cond.get(k, 0.0) / tot) > rtol:
                        return (f"{tag}: P{list(k)} = {got.get(k, 0.0)!r}, Sampler conditioned and renormalised "
                                f"{cond.get(k, 0.0) / tot!r}")
                if abs(sum(got.values()) - 1) > 1e-9:
                    return f"{tag}: distribution sums to {sum(got.values())!r}"
        return None

    # ------------------------------------------------------------------ bookkeeping
    def nontrivial(self, c, obs):
        her = any(o[0] == "herald" for o in c["prog"])
        lossy = fg.count_loss(c["prog"]) > 0
        an = obs["an"]
        big = "ok" in an and len(an["ok"][0]) >= 2 and sum(c["inputs"][0]) >= 2
        return c["kind"] == "ok" and (big or (("ok" in an) and (her or lossy or c["psel"] is not None)))

    def stats(self, cases, recs):
        kinds = Counter(c["kind"] for c in cases)
        var = Counter(c.get("variant") for c in cases)
        an = Counter(("ok" if "ok" in r["impl"]["an"] else r["impl"]["an"]["err"]) for r in recs if isinstance(r["impl"], dict) and "an" in r["impl"])
        qs = Counter(("ok" if "ok" in x else x["err"]) for r in recs if isinstance(r["impl"], dict) and "qs" in r["impl"]
                     for pair in r["impl"]["qs"] for x in pair)
        ps = Counter(("none" if c["psel"] is None else list(c["psel"])[0]) for c in cases)
        ph = Counter(sum(c["inputs"][0]) if c["inputs"] else -1 for c in cases)
        hph = Counter(sum(o[2] for o in c["prog"] if o[0] == "herald") for c in cases)
        lossy = sum(1 for c in cases if fg.count_loss(c["prog"]) > 0)
        return {"kinds": dict(kinds), "herald_variants": dict(var), "analyzer_outcomes": dict(an), "quick_sampler_outcomes": dict(qs),
                "post_selection": dict(ps), "input_photons": dict(ph), "herald_photons_in_program": dict(hph), "lossy_programs": lossy}

    def shrink(self, c):
        for i in range(len(c["prog"]) - 1, 0, -1):
            if c["prog"][i][0] in ("bs", "ps", "loss", "barrier", "swaps"):
                d = copy.deepcopy(c)
                del d["prog"][i]
                yield d
        if len(c["inputs"]) > 1:
            d = copy.deepcopy(c)
            d["inputs"] = d["inputs"][:1]
            d["qins"] = d["inputs"][:1]
            if d["expected"] is not None:
                d["expected"] = [e for e in d["expected"] if e[0] == d["inputs"][0]]
            yield d
        if c["psel"] is not None:
            d = copy.deepcopy(c)
            d["psel"] = None
            yield d
        if c["expected"] is not None:
            d = copy.deepcopy(c)
            d["expected"] = None
            yield d

    def signature(self, c, rec):
        return None      # no known finding is recorded for C05 (F6, N14, vacuum/threshold, repeated expected state: all repaired)


PROP = C05()

if __name__ == "__main__":
    sys.exit(core.main(PROP))
