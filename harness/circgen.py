"""Circuit programs: generation, execution on real lightworks, rendering as Coq terms.

A program is a list of ops (JSON lists) over a pool of circuits addressed by small ints:
  ["new", id, n]                         lw.Circuit(n)
  ["unitary", id, k, V]                  lw.Unitary(matrix) ; V = k x k list of [re_n, re_d, im_n, im_d]
  ["bs", id, m1, m2|None, R, L, conv]    R = index into BSV or ["raw", n, d] (invalid value), L = loss spec
  ["ps", id, m, P, L]                    P = index into PHV
  ["loss", id, m, L]
  ["barrier", id, modes|None]
  ["swaps", id, [[k, v], ...]]
  ["herald", id, n, im, om|None]
  ["add", id, sub, mode, group]
  ["plus", new, a, b]   ["copy", new, a]   ["unpack", id]
Values with rational amplitudes only (exact model arithmetic):
"""
from __future__ import annotations

import math
from fractions import Fraction as F

import numpy as np

from core import cb, clist, cn, copt, cz, ERR_CODES

import lightworks as lw

# (x, sqrt x, sqrt(1-x)) with rational roots
_PY = [(0, 1), (1, 0), (3, 4), (4, 3), (5, 12), (12, 5), (8, 15), (15, 8), (7, 24), (20, 21)]
SQ = []
for a, b in _PY:
    h = int(round(math.sqrt(a * a + b * b)))
    assert h * h == a * a + b * b
    SQ.append((F(a * a, h * h), F(a, h), F(b, h)))
# reflectivity value triples: (r, sqrt r, sqrt(1-r)) ; loss triples: (l, sqrt(1-l), sqrt l)
BSV = SQ
LSV = [(x, s1, s0) for (x, s0, s1) in SQ]
# phases: (cos, sin) rational points on the unit circle
PHV = [(F(1), F(0)), (F(0), F(1)), (F(-1), F(0)), (F(0), F(-1)), (F(3, 5), F(4, 5)), (F(-3, 5), F(4, 5)),
       (F(5, 13), F(-12, 13)), (F(4, 5), F(3, 5)), (F(-8, 17), F(-15, 17)), (F(12, 13), F(5, 13))]


def ffloat(fr):
    return fr.numerator / fr.denominator


# ---------------------------------------------------------------- unitaries
def rational_unitary(rng, k):
    """Exactly unitary k x k matrix with Gaussian-rational entries: product of
    rational Givens rotations, phases and a permutation."""
    U = [[(F(1) if i == j else F(0), F(0)) for j in range(k)] for i in range(k)]

    def cmul(a, b):
        return (a[0] * b[0] - a[1] * b[1], a[0] * b[1] + a[1] * b[0])

    def cadd(a, b):
        return (a[0] + b[0], a[1] + b[1])

    for _ in range(rng.randint(0, min(3, k * (k - 1) // 2 + 1))):
        if k < 2:
            break
        i, j = rng.sample(range(k), 2)
        c, s = rng.choice(PHV)
        e = rng.choice(PHV[:6])
        # rows i, j  <-  [[c, -s e*],[s e, c]] applied on the left
        es = cmul((s, F(0)), e)
        esc = (es[0], -es[1])
        for col in range(k):
            a, b = U[i][col], U[j][col]
            U[i][col] = cadd(cmul((c, F(0)), a), cmul((-esc[0], -esc[1]), b))
            U[j][col] = cadd(cmul(es, a), cmul((c, F(0)), b))
    for i in range(k):
        if rng.random() < 0.4:
            e = rng.choice(PHV)
            U[i] = [cmul(e, x) for x in U[i]]
    if rng.random() < 0.5:
        perm = list(range(k))
        rng.shuffle(perm)
        U = [U[p] for p in perm]
    return [[[x[0].numerator, x[0].denominator, x[1].numerator, x[1].denominator] for x in row] for row in U]


def v_to_np(V):
    return np.array([[complex(a / b, c / d) for a, b, c, d in row] for row in V], dtype=complex)


# ---------------------------------------------------------------- execution on lightworks
def _bs_value(R):
    if isinstance(R, list):          # ["raw", n, d]
        return R[1] / R[2]
    return ffloat(BSV[R][0])


BADTYPE = {"none": None, "str": "", "str2": "a", "list": [], "tuple": (), "dict": {}, "list1": [0.5]}


def is_badtype(L):
    return isinstance(L, list) and len(L) == 2 and L[0] == "badtype"


def err_name_for(op, e):
    """exception class name of a rejected call; a non-numeric loss is presented to the model as an out-of-range
    number, so the implementation's TypeError is mapped onto ValueError for exactly those calls"""
    name = type(e).__name__
    if name == "TypeError" and any(is_badtype(x) for x in op):
        return "ValueError"
    return name


def _loss_value(L):
    if L is None:
        return 0
    if is_badtype(L):                # a non-numeric loss (several of them falsy): TypeError before anything is appended
        return BADTYPE[L[1]]
    if isinstance(L, list):
        return L[1] / L[2]
    return ffloat(LSV[L][0])


def _phase_value(P):
    c, s = PHV[P]
    return math.atan2(ffloat(s), ffloat(c))


def snapshot(c, with_u=True):
    h = c.heralds
    snap = [c.n_modes, c.input_modes, [[k, v] for k, v in h["input"].items()],
            [[k, v] for k, v in h["output"].items()], sorted(c._internal_modes)]
    if with_u:
        try:
            u = c.U_full
            snap.append({"ok": [int(u.shape[0]), [[[float(x.real), float(x.imag)] for x in row] for row in u]]})
        except Exception as e:  # noqa: BLE001
            snap.append({"err": type(e).__name__})
    else:
        snap.append([])
    return snap


def apply_op(pool, op):
    k = op[0]
    if k == "new":
        pool[op[1]] = lw.Circuit(op[2])
    elif k == "unitary":
        arr = v_to_np(op[3])
        pool[op[1]] = lw.Unitary(arr)
        arr[...] = 0          # the caller's buffer is reused: the circuit must hold its own copy of the block
    elif k == "bs":
        _, cid, m1, m2, R, L, conv = op
        pool[cid].bs(m1, m2, reflectivity=_bs_value(R), loss=_loss_value(L), convention=conv)
    elif k == "ps":
        _, cid, m, P, L = op
        pool[cid].ps(m, _phase_value(P), loss=_loss_value(L))
    elif k == "loss":
        pool[op[1]].loss(op[2], _loss_value(op[3]))
    elif k == "barrier":
        if op[2] is None:
            pool[op[1]].barrier()
        else:
            pool[op[1]].barrier(list(op[2]))
    elif k == "swaps":
        pool[op[1]].mode_swaps({a: b for a, b in op[2]})
    elif k == "herald":
        _, cid, n, im, om = op
        pool[cid].herald(n, im, om)
    elif k == "add":
        _, cid, sub, mode, group = op
        pool[cid].add(pool[sub], mode, group=group)
    elif k == "plus":
        pool[op[1]] = pool[op[2]] + pool[op[3]]
    elif k == "copy":
        pool[op[1]] = pool[op[2]].copy()
    elif k == "unpack":
        pool[op[1]].unpack_groups()
    else:
        raise RuntimeError(f"unknown op {k}")


def run_impl(prog, on_step=None, want=None):
    """Returns [outcomes, world snapshot]. on_step(pool, op, outcome, before) for oracles;
    want(op) -> iterable of circuit ids to snapshot before the call (default: all)."""
    pool = {}
    outcomes = []
    for op in prog:
        before = None
        if on_step is not None:
            ids = list(pool) if want is None else [i for i in want(op) if i in pool]
            before = {cid: snapshot(pool[cid]) for cid in ids}
        try:
            apply_op(pool, op)
            out = {"ok": []}
        except NotImplementedError:
            out = {"err": "OtherError"}
        except Exception as e:  # noqa: BLE001
            out = {"err": err_name_for(op, e)}
        outcomes.append(out)
        if on_step is not None:
            on_step(pool, op, out, before)
    world = [[cid, snapshot(pool[cid])] for cid in pool]
    return [outcomes, world], pool


# ---------------------------------------------------------------- rendering as Coq
def _lit(tr):
    return "(lit3 " + " ".join(f"{cz(x.numerator)} {cz(x.denominator)}" for x in tr) + ")"


def _bs_coq(R):
    if isinstance(R, list):
        return _lit((F(R[1], R[2]), F(0), F(0)))
    return _lit(BSV[R])


def _loss_coq(L):
    if L is None:
        return _lit((F(0), F(1), F(0)))
    if is_badtype(L):                # presented to the model as an out-of-range number (ValueError); the driver maps
        return _lit((F(-1, 4), F(0), F(0)))      # the implementation's TypeError onto it for these calls
    if isinstance(L, list):
        return _lit((F(L[1], L[2]), F(0), F(0)))
    return _lit(LSV[L])


def _ph_coq(P):
    c, s = PHV[P]
    return _lit((F(0), c, s))


def op_to_coq(op):
    k = op[0]
    if k == "new":
        return f"ONew {cn(op[1])} {cn(op[2])}"
    if k == "unitary":
        rows = clist(clist(f"(cq {cz(a)} {cz(b)} {cz(c)} {cz(d)})" for a, b, c, d in row) for row in op[3])
        return f"OUnitary {cn(op[1])} {cn(op[2])} {rows}"
    if k == "bs":
        _, cid, m1, m2, R, L, conv = op
        cv = "Rx" if conv == "Rx" else "Hv"
        return f"OBs {cn(cid)} {cz(m1)} {copt(m2, cz)} {_bs_coq(R)} {_loss_coq(L)} {cv}"
    if k == "ps":
        _, cid, m, P, L = op
        return f"OPs {cn(cid)} {cz(m)} {_ph_coq(P)} {_loss_coq(L)}"
    if k == "loss":
        return f"OLoss {cn(op[1])} {cz(op[2])} {_loss_coq(op[3])}"
    if k == "barrier":
        return f"OBarrier {cn(op[1])} {copt(op[2], lambda l: clist(cz(x) for x in l))}"
    if k == "swaps":
        return f"OSwaps {cn(op[1])} {clist(f'({cz(a)}, {cz(b)})' for a, b in op[2])}"
    if k == "herald":
        _, cid, n, im, om = op
        return f"OHerald {cn(cid)} {cn(n)} {cz(im)} {copt(om, cz)}"
    if k == "add":
        _, cid, sub, mode, group = op
        return f"OAdd {cn(cid)} {cn(sub)} {cz(mode)} {cb(group)}"
    if k == "plus":
        return f"OPlus {cn(op[1])} {cn(op[2])} {cn(op[3])}"
    if k == "copy":
        return f"OCopy {cn(op[1])} {cn(op[2])}"
    if k == "unpack":
        return f"OUnpack {cn(op[1])}"
    raise RuntimeError(k)


COQ_HEADER = ("From Coq Require Import ZArith List.\nFrom Bignums Require Import BigQ.\n"
              "From LW Require Import Base.Sx Base.Num Model.Circuit Model.World Exec.QNum Exec.RunCircuit.\n")


def prog_to_coq(prog):
    return "run_prog " + clist("(" + op_to_coq(o) + ")" for o in prog)


def decode_snapshot(s):
    n, im, hin, hout, internal, u = s
    if u == []:
        ud = []
    elif u[0] == 0:
        dim, rows = u[1]
        ud = {"ok": [dim, [[[x[0] / 1e12, x[1] / 1e12] for x in row] for row in rows]]}
    else:
        ud = {"err": ERR_CODES.get(u[1], str(u[1]))}
    return [n, im, hin, hout, internal, ud]


def decode_world(sx):
    outcomes = [({"ok": []} if r[0] == 0 else {"err": ERR_CODES.get(r[1], str(r[1]))}) for r in sx[0]]
    world = [[cid, decode_snapshot(s)] for cid, s in sx[1]]
    return [outcomes, world]


# ---------------------------------------------------------------- program generation
def gen_value_bs(rng, bad=0.0):
    if rng.random() < bad:
        return ["raw", rng.choice([-1, 5, 9]), rng.choice([4, 2])]
    return rng.randrange(len(BSV))


def gen_value_loss(rng, p=0.3, bad=0.0):
    if rng.random() < bad:
        if rng.random() < 0.4:
            return ["badtype", rng.choice(sorted(BADTYPE))]
        return ["raw", rng.choice([-1, 5]), 4]
    if rng.random() < p:
        return rng.randrange(len(LSV))
    return None


def gen_mode(rng, n, bad=0.0):
    if rng.random() < bad:
        return rng.choice([-1, n, n + 1, -n])
    return rng.randrange(max(n, 1))


def gen_primitive(rng, cid, nvis, bad=0.0, loss_p=0.3, kinds=None):
    """One primitive call on circuit cid with nvis user-visible modes."""
    kinds = kinds or ["bs", "bs", "ps", "loss", "barrier", "swaps"]
    k = rng.choice(kinds)
    if k == "bs" and nvis >= 2:
        m1 = gen_mode(rng, nvis, bad)
        if rng.random() < 0.4:
            m2 = None
            if m1 == nvis - 1 and rng.random() > bad:
                m1 = nvis - 2
        else:
            m2 = gen_mode(rng, nvis, bad)
            if m2 == m1 and rng.random() > bad:
                m2 = (m1 + 1) % nvis
        return ["bs", cid, m1, m2, gen_value_bs(rng, bad), gen_value_loss(rng, loss_p, bad), rng.choice(["Rx", "H"])]
    if k == "loss":
        L = gen_value_loss(rng, 1.0, bad)
        return ["loss", cid, gen_mode(rng, nvis, bad), L]
    if k == "barrier":
        if rng.random() < 0.3:
            return ["barrier", cid, None]
        return ["barrier", cid, [gen_mode(rng, nvis, bad) for _ in range(rng.randint(0, min(3, nvis)))]]
    if k == "swaps" and nvis >= 2:
        ks = rng.sample(range(nvis), rng.randint(2, min(4, nvis)))
        vs = list(ks)
        rng.shuffle(vs)
        if rng.random() < bad:
            vs[0] = (vs[0] + 1) % (nvis + 1)
        return ["swaps", cid, [[a, b] for a, b in zip(ks, vs)]]
    return ["ps", cid, gen_mode(rng, nvis, bad), rng.randrange(len(PHV)), gen_value_loss(rng, loss_p, bad)]


# ---------------------------------------------------------------- trees of circuits
def gen_tree_program(rng, tier, bad=0.0, loss_p=0.25, max_leaves=4, meta=None):
    """Leaves with heralds (any declaration order, in != out modes), parents with
    primitives, additions in any order (grouped or not), nesting up to depth 3,
    primitives after additions (mode numbering skips ancillas)."""
    prog = []
    nid = 0
    anc = {}      # estimate of the ancilla modes a circuit has accumulated (own heralds + those of added circuits)
    cap_full = 12 if tier == "quick" else 16   # bound on visible + ancilla modes of any circuit: exact rational
    #                                            matrices of dimension 30+ with 40 components take minutes each
    vis = {}      # user-visible mode count (= n at creation)
    opn = {}      # non-heralded modes seen by a parent = vis - #external heralds
    depth = {}
    big = tier != "quick"

    def new_circuit(n, d):
        nonlocal nid
        cid = nid
        nid += 1
        prog.append(["new", cid, n])
        vis[cid], opn[cid], depth[cid] = n, n, d
        return cid

    nls = {}      # estimate of the loss elements a circuit has accumulated
    cap_dim = 18 if tier == "quick" else 24     # bound on the dimension of U_full (modes + ancillas + loss modes)

    def prims(cid, k):
        for _ in range(k):
            o = gen_primitive(rng, cid, vis[cid], bad=bad, loss_p=loss_p)
            nl = 1 if o[0] == "loss" else (2 if o[0] == "bs" and o[5] is not None else (1 if o[0] == "ps" and o[4] is not None else 0))
            if nl and vis[cid] + anc.get(cid, 0) + nls.get(cid, 0) + nl > cap_dim:
                continue
            nls[cid] = nls.get(cid, 0) + nl
            prog.append(o)

    def heralds(cid, k):
        n = vis[cid]
        k = min(k, n - 1)
        if k <= 0:
            return
        ins = rng.sample(range(n), k)
        outs = list(ins) if rng.random() < 0.5 else rng.sample(range(n), k)
        for i, o in zip(ins, outs):
            prog.append(["herald", cid, rng.choice([0, 0, 1, 1, 2]), i, None if (i == o and rng.random() < 0.5) else o])
            anc[cid] = anc.get(cid, 0) + 1
        if rng.random() < bad:
            # rejected herald calls: duplicate on both sides, only the input taken, only the OUTPUT taken
            # (free input mode: a check-then-record-per-side implementation would leave a half-written herald),
            # out-of-range output with a valid input
            free = [m for m in range(n) if m not in ins and m not in outs]
            v = rng.randrange(4)
            if v == 1 and free:
                prog.append(["herald", cid, 1, ins[0], free[0]])
            elif v == 2 and free:
                prog.append(["herald", cid, rng.choice([0, 1]), free[0], outs[-1]])
            elif v == 3 and free:
                prog.append(["herald", cid, 1, free[0], n + rng.randrange(2)])
            else:
                prog.append(["herald", cid, 1, ins[0], None])
        opn[cid] -= k

    leaves = []
    for _ in range(rng.randint(1, max_leaves)):
        if rng.random() < 0.2:
            k = rng.randint(1, 3)
            cid = nid
            nid += 1
            prog.append(["unitary", cid, k, rational_unitary(rng, k)])
            vis[cid], opn[cid], depth[cid] = k, k, 0
            if rng.random() < 0.3:
                heralds(cid, 1)
        else:
            cid = new_circuit(rng.randint(1, 5 if big else 4), 0)
            prims(cid, rng.randint(0, 4))
            heralds(cid, rng.choice([0, 1, 1, 2, 2, 3]))
            if rng.random() < 0.3:
                prims(cid, rng.randint(1, 2))
        leaves.append(cid)
    pool = list(leaves)
    for level in range(rng.randint(1, 3 if big else 2)):
        parent = new_circuit(rng.randint(2, 7 if big else 5), level + 1)
        prims(parent, rng.randint(0, 3))
        for _ in range(rng.randint(1, 4)):
            sub = rng.choice(pool)
            k = opn[sub]
            if rng.random() < bad:
                mode = rng.randint(-1, vis[parent] + 1)
            elif vis[parent] - k < 0:
                mode = 0
            else:
                mode = rng.randint(0, max(0, vis[parent] - k))
            if (vis[parent] + anc.get(parent, 0) + anc.get(sub, 0) > cap_full
                    or vis[parent] + anc.get(parent, 0) + anc.get(sub, 0) + nls.get(parent, 0) + nls.get(sub, 0) > cap_dim) \
                    and rng.random() > bad:
                continue
            prog.append(["add", parent, sub, mode, rng.random() < 0.4])
            anc[parent] = anc.get(parent, 0) + anc.get(sub, 0)
            nls[parent] = nls.get(parent, 0) + nls.get(sub, 0)
            if rng.random() < 0.6:
                prims(parent, rng.randint(1, 2))
        if rng.random() < 0.4:
            heralds(parent, rng.choice([1, 1, 2]))
        r = rng.random()
        if r < 0.1:
            prog.append(["copy", nid, parent])
            vis[nid], opn[nid], depth[nid] = vis[parent], opn[parent], depth[parent]
            anc[nid] = anc.get(parent, 0)
            nls[nid] = nls.get(parent, 0)
            pool.append(nid)
            nid += 1
        elif r < 0.2:
            prog.append(["unpack", parent])
        pool.append(parent)
    if meta is not None:
        meta.update(dict(vis=vis, opn=opn, depth=depth, last=parent))
    return prog
