"""Shared helpers for C03/C04/C05: small circuits + Fock states, independent permanent."""
from __future__ import annotations

import itertools
import math

import numpy as np

import circgen as cg


def count_loss(prog):
    n = 0
    for o in prog:
        if o[0] == "loss":
            n += 1
        elif o[0] == "bs" and o[5] is not None:
            n += 2
        elif o[0] == "ps" and o[4] is not None:
            n += 1
    return n


def gen_circuit(rng, tier, max_herald_photons=2, lossy=None, bad=0.0, max_dim=None):
    """Returns (prog, cid, input_modes_estimate, herald_photons). Sizes are bounded so permanents stay small:
    herald photons <= max_herald_photons, (modes + loss elements of the whole program) <= max_dim."""
    if max_dim is None:
        max_dim = 8 if tier == "quick" else 10
    for _ in range(400):
        meta = {}
        lp = 0.0 if lossy is False else (0.4 if lossy else 0.15)
        prog = cg.gen_tree_program(rng, tier, bad=bad, loss_p=lp, max_leaves=2, meta=meta)
        if lossy is False:
            prog = [o for o in prog if o[0] != "loss"]
        hp = sum(o[2] for o in prog if o[0] == "herald")
        cid = meta["last"]
        nfull = meta["vis"][cid] + sum(1 for o in prog if o[0] == "herald")
        if lossy and count_loss(prog) == 0:
            continue
        if not (hp <= max_herald_photons and nfull + count_loss(prog) <= max_dim and meta["opn"][cid] >= 1):
            continue
        # a heralded circuit added several times multiplies its heralds and losses: bound what the
        # program really builds (the size of U_full and the herald photons of the selected circuit)
        try:
            _, pool = cg.run_impl(prog)
            circ = pool[cid]
            dim = circ.U_full.shape[0]
            hp_real = sum(circ.heralds["input"].values())
            if dim > max_dim or hp_real > max_herald_photons or sum(circ.heralds["output"].values()) > max_herald_photons:
                continue
            return prog, cid, circ.input_modes, hp_real
        except Exception:  # noqa: BLE001
            continue
    return [["new", 0, 2]], 0, 2, 0


def gen_state(rng, n, photons):
    s = [0] * n
    for _ in range(photons):
        s[rng.randrange(n)] += 1
    return s


def perm_direct(M):
    n = M.shape[0]
    if n == 0:
        return 1.0 + 0j
    tot = 0j
    for sigma in itertools.permutations(range(n)):
        p = 1 + 0j
        for i in range(n):
            p *= M[sigma[i], i]
        tot += p
    return tot


def amplitude_ref(U, ins, outs):
    """Independent reference: permanent of the photon-indexed sub-matrix / sqrt(prod factorials)."""
    if sum(ins) != sum(outs):
        return 0j
    x = [i for i, k in enumerate(outs) for _ in range(k)]
    y = [i for i, k in enumerate(ins) for _ in range(k)]
    M = U[np.ix_(x, y)] if x else np.zeros((0, 0), dtype=complex)
    f = math.prod(math.factorial(k) for k in ins) * math.prod(math.factorial(k) for k in outs)
    return perm_direct(M) / math.sqrt(f)


def full_state(state, heralds, loss_modes):
    """user-visible state + herald dict {mode: photons} + vacuum on loss modes."""
    n = len(state) + len(heralds)
    out = []
    it = iter(state)
    for i in range(n):
        out.append(heralds[i] if i in heralds else next(it))
    return out + [0] * loss_modes


def fock_states(n, k):
    if n == 0:
        return [[]] if k == 0 else []
    res = []
    for c in itertools.combinations_with_replacement(range(n), k):
        s = [0] * n
        for i in c:
            s[i] += 1
        res.append(s)
    return res
