"""C19 — any constructible circuit can be displayed, without side effects."""
from __future__ import annotations

import contextlib
import copy
import hashlib
import io
import itertools
import json
import random
import sys
import warnings
import zlib
from collections import Counter

import numpy as np

import core
import circgen as cg
from core import cb, clist, cn, copt, cz

import lightworks as lw

# core.parse_sx is recursive in the length of a printed list; a primitive trace can have a few thousand entries
sys.setrecursionlimit(max(sys.getrecursionlimit(), 100000))

DT_CODE = {"svg": 0, "mpl": 1}
SVG_CODES = {"text": 0, "wg": 1, "ps": 2, "bs": 3, "unitary": 4, "lc": 5, "mode_swaps": 6, "group": 7, "herald": 8}
MPL_FACE = {"#000000": 1, "#e8532b": 2, "#3e368d": 3, "#808080": 5, "#1a0f36": 4}
PKIND = {"num": 0, "str": 1, "none": 2}


# ---------------------------------------------------------------- programs with Parameters
def _is_param(x):
    return isinstance(x, list) and len(x) == 2 and x[0] == "param"


def make_params(table):
    out = []
    for p in table:
        v = p["v"]
        if v[0] == "num":
            val = v[1] / v[2]
            if v[2] == 1 and len(out) % 2:
                val = int(v[1])              # 0 and 1 as int
        elif v[0] == "str":
            val = v[1]
        else:
            val = None
        out.append(lw.Parameter(val, label=p["label"]))
    return out


def apply_op(pool, op, params):
    k = op[0]
    if k == "bs" and (_is_param(op[4]) or _is_param(op[5])):
        _, cid, m1, m2, R, L, conv = op
        r = params[R[1]] if _is_param(R) else cg._bs_value(R)
        lo = params[L[1]] if _is_param(L) else cg._loss_value(L)
        pool[cid].bs(m1, m2, reflectivity=r, loss=lo, convention=conv)
    elif k == "ps" and (_is_param(op[3]) or _is_param(op[4])):
        _, cid, m, P, L = op
        ph = params[P[1]] if _is_param(P) else cg._phase_value(P)
        lo = params[L[1]] if _is_param(L) else cg._loss_value(L)
        pool[cid].ps(m, ph, loss=lo)
    elif k == "loss" and _is_param(op[3]):
        pool[op[1]].loss(op[2], params[op[3][1]])
    elif k == "unitary":
        # block labels of every length class (the drawers size and rotate the text by it), or the default
        h = zlib.crc32(json.dumps(op).encode()) % 6
        arr = cg.v_to_np(op[3])
        pool[op[1]] = lw.Unitary(arr) if h == 0 else lw.Unitary(arr, label=["", "V", "ab", "a long label", "U"][h - 1])
        arr[...] = 0
    elif k == "add":
        _, cid, sub, mode, group = op
        h = zlib.crc32(json.dumps(op).encode()) % 5
        if h == 0:
            pool[cid].add(pool[sub], mode, group=group)
        else:
            pool[cid].add(pool[sub], mode, group=group, name=["", "G", "ab", "a long group name"][h - 1])
    elif k == "compress":
        pool[op[1]].compress_mode_swaps()
    elif k == "nonadj":
        pool[op[1]].remove_non_adjacent_bs()
    elif k == "copyf":
        pool[op[1]] = pool[op[2]].copy(freeze_parameters=True)
    else:
        cg.apply_op(pool, op)


def build(prog, ptable):
    params = make_params(ptable)
    pool = {}
    outcomes = []
    for op in prog:
        try:
            apply_op(pool, op, params)
            outcomes.append({"ok": []})
        except NotImplementedError:
            outcomes.append({"err": "OtherError"})
        except Exception as e:  # noqa: BLE001
            outcomes.append({"err": cg.err_name_for(op, e)})
    return pool, outcomes, params


def _val_coq(x, lit):
    return f"(Ref {cn(x[1])})" if _is_param(x) else lit(x)


def op_to_coq(op):
    k = op[0]
    if k == "bs" and (_is_param(op[4]) or _is_param(op[5])):
        _, cid, m1, m2, R, L, conv = op
        cv = "Rx" if conv == "Rx" else "Hv"
        return f"OBs {cn(cid)} {cz(m1)} {copt(m2, cz)} {_val_coq(R, cg._bs_coq)} {_val_coq(L, cg._loss_coq)} {cv}"
    if k == "ps" and (_is_param(op[3]) or _is_param(op[4])):
        _, cid, m, P, L = op
        return f"OPs {cn(cid)} {cz(m)} {_val_coq(P, cg._ph_coq)} {_val_coq(L, cg._loss_coq)}"
    if k == "loss" and _is_param(op[3]):
        return f"OLoss {cn(op[1])} {cz(op[2])} (Ref {cn(op[3][1])})"
    return cg.op_to_coq(op)


# ---------------------------------------------------------------- observation of one Display call
def deep_snapshot(c, params):
    snap = cg.snapshot(c, with_u=True)
    spec = c._get_circuit_spec()
    ext = c._external_heralds
    return [snap, len(spec), hashlib.sha1(repr(spec).encode()).hexdigest(), list(c._internal_modes),
            [[k, v] for k, v in ext["input"].items()], [[k, v] for k, v in ext["output"].items()],
            [[repr(p.get()), p.label] for p in params]]


def _err(e):
    if isinstance(e, TypeError):           # multimethod re-raises a TypeError of the body as DispatchError(TypeError)
        return "TypeError"
    return type(e).__name__


def _labels(k, style=0):
    """k mode labels: short strings, empty strings, long strings, digits / blanks / non-ASCII"""
    if k is None:
        return None
    if style == 1:
        return ["" for _ in range(k)]
    if style == 2:
        return [f"a rather long mode label {i}" for i in range(k)]
    if style == 3:
        return [("7", " ", "\u03bc\u2081", "-")[i % 4] for i in range(k)]
    return [f"m{i}" for i in range(k)]


def display_method(c, params, dt, loss, vals, k, style, expect_ok):
    """The same request through Circuit.display(), the entry point users call.  None or text."""
    import matplotlib.pyplot as plt
    before = deep_snapshot(c, params)
    err = None
    try:
        with contextlib.redirect_stdout(io.StringIO()), warnings.catch_warnings():
            warnings.simplefilter("ignore")
            r = c.display(show_parameter_values=vals, display_loss=loss, mode_labels=_labels(k, style), display_type=dt)
        if r is not None and expect_ok:
            return f"circuit.display(...) returned {type(r).__name__}"
    except Exception as e:  # noqa: BLE001
        err = _err(e)
    finally:
        plt.close("all")
    if expect_ok and err:
        return f"circuit.display(display_type={dt!r}, display_loss={loss}, show_parameter_values={vals}, {'no' if k is None else k} labels) raised {err}"
    if not expect_ok and err != "DisplayError":
        return f"circuit.display with a label list of the wrong length / unknown type -> {err or 'a drawing'}, expected DisplayError"
    d = core.approx_equal(before, deep_snapshot(c, params), tol=0.0)
    if d:
        return f"circuit changed by circuit.display: {d}"
    return None


def observe_draw(c, params, dt, loss, vals, k, style=0):
    import matplotlib
    import matplotlib.pyplot as plt
    import drawsvg

    before = deep_snapshot(c, params)
    rec = {"ret": None, "pure": None}
    labels = _labels(k, style)
    labels0 = None if labels is None else list(labels)
    try:
        r = lw.Display(c, display_loss=loss, mode_labels=labels, display_type=dt, show_parameter_values=vals)
        if dt == "mpl":
            good = (isinstance(r, tuple) and len(r) == 2 and isinstance(r[0], matplotlib.figure.Figure)
                    and isinstance(r[1], matplotlib.axes.Axes))
            rec["ret"] = "FigAx" if good else type(r).__name__
            ax = r[1]
            ys = [float(y) for y in ax.get_yticks()]

            def at(k, y):            # kind + 10 * (mode + 1), the mode being read back from the height
                hits = [i for i, v in enumerate(ys) if abs(v - y) < 1e-6]
                return k + 10 * (hits[0] + 1) if len(hits) == 1 else -1

            patches = []
            for p in ax.patches:
                name = type(p).__name__
                if name == "Polygon":
                    patches.append(6)
                elif name == "Circle":
                    patches.append(at(8, p.center[1]))
                else:
                    k = MPL_FACE.get(matplotlib.colors.to_hex(p.get_facecolor()), -1)
                    if k in (1, 2, 5):      # waveguide, phase shifter, loss: centred on the mode
                        patches.append(at(k, p.get_y() + p.get_height() / 2))
                    elif k in (3, 4):       # beam splitter / unitary / group box: top edge offset/2 above mode1
                        patches.append(at(k, p.get_y() + 0.25))
                    else:
                        patches.append(-1)
            rec["out"] = {"ok": [[y * 10 for y in ys], patches, len(ax.texts)]}
        else:
            rec["ret"] = "Drawing" if isinstance(r, drawsvg.Drawing) else type(r).__name__
            # secondary observables of the SVG drawer: the draw_spec it accumulated
            from lightworks.sdk.visualisation.draw_circuit_svg import DrawCircuitSVG
            d = DrawCircuitSVG(c, loss, _labels(k, style), vals)
            ys = [int(y) for y in d.y_locations]
            trace = []
            for kk, args in d.draw_spec:
                k = SVG_CODES.get(kk, -1)
                if kk in ("wg", "ps", "lc", "bs", "unitary", "group", "herald"):
                    k = k + 10 * (ys.index(args[1]) + 1) if args[1] in ys else -1
                trace.append(k)
            rec["out"] = {"ok": [ys, trace]}
    except Exception as e:  # noqa: BLE001
        rec["out"] = {"err": _err(e)}
    finally:
        plt.close("all")
    after = deep_snapshot(c, params)
    d = core.approx_equal(before, after, tol=0.0)
    if d:
        rec["pure"] = f"circuit changed by Display: {d}"
    elif labels != labels0:
        rec["pure"] = f"the caller's mode_labels list was modified by Display: {labels0} -> {labels}"
    return rec


# ---------------------------------------------------------------- WF on the real object (oracle side)
def wf_real(c):
    """The invariant WF of Proofs/DisplayP.v evaluated on the real circuit. None or text."""
    from lightworks.sdk.circuit import components as comps

    n = c.n_modes
    internal = list(c._internal_modes)
    if len(set(internal)) != len(internal) or any(not (0 <= m < n) for m in internal):
        return f"internal modes {internal} not distinct/in range of {n}"
    ext = c._external_heralds
    h = c.heralds
    for d in (ext["input"], ext["output"], h["input"], h["output"]):
        if any(not (0 <= m < n) for m in d):
            return f"herald keys {list(d)} out of range {n}"

    def comp_ok(s):
        if isinstance(s, comps.BeamSplitter):
            return 0 <= s.mode_1 < n and 0 <= s.mode_2 < n
        if isinstance(s, (comps.PhaseShifter, comps.Loss)):
            return 0 <= s.mode < n
        if isinstance(s, comps.Barrier):
            return all(0 <= m < n for m in s.modes)
        if isinstance(s, comps.ModeSwaps):
            return all(0 <= m < n for m in [*s.swaps.keys(), *s.swaps.values()])
        if isinstance(s, comps.UnitaryMatrix):
            k = s.unitary.shape[0]
            return k >= 1 and 0 <= s.mode and s.mode + k <= n
        if isinstance(s, comps.Group):
            span = s.mode_2 - s.mode_1 + 1
            return (0 <= s.mode_1 <= s.mode_2 < n and all(0 <= m < span for m in s.heralds["input"])
                    and all(0 <= m < span for m in s.heralds["output"]) and all(comp_ok(x) for x in s.circuit_spec))
        return False

    for s in c._get_circuit_spec():
        if not comp_ok(s):
            return f"component {s!r} violates WF for n_modes={n}"
    return None


# ---------------------------------------------------------------- generation
LABELS = [None, "", "theta", "a long label"]


def gen_params(rng, with_other=False):
    table = []
    for _ in range(rng.randint(1, 4)):
        r = rng.random()
        if with_other and r < 0.25:
            v = ["none"]
        elif r < 0.45:
            v = ["str", rng.choice(["x", "", "phi_1"])]
        else:
            fr = rng.choice(cg.BSV)[0]
            v = ["num", fr.numerator, fr.denominator]
        table.append({"v": v, "label": rng.choice(LABELS)})
    # one numeric in-range parameter usable as a loss
    fr = rng.choice(cg.LSV)[0]
    table.append({"v": ["num", fr.numerator, fr.denominator], "label": rng.choice(LABELS)})
    return table


def gen_param_prims(rng, cid, nvis, table, k):
    ops = []
    loss_pid = len(table) - 1
    for _ in range(k):
        pid = rng.randrange(len(table))
        kind = rng.choice(["bs", "ps", "ps", "loss", "psl", "bsl"])
        if kind in ("bs", "bsl") and nvis >= 2:
            m1 = rng.randrange(nvis)
            m2 = rng.choice([m for m in range(nvis) if m != m1])
            L = ["param", loss_pid] if kind == "bsl" else None
            ops.append(["bs", cid, m1, m2, ["param", pid], L, rng.choice(["Rx", "H"])])
        elif kind == "loss":
            ops.append(["loss", cid, rng.randrange(nvis), ["param", loss_pid]])
        else:
            L = ["param", loss_pid] if kind == "psl" else None
            ops.append(["ps", cid, rng.randrange(nvis), ["param", pid], L])
    return ops


def gen_prim_program(rng, big):
    """One circuit: primitives incl. empty barrier / empty swaps / full barrier, Unitary blocks of every size
    (also 1), heralds on first / last / every mode, optionally wrapped into a parent."""
    n = rng.randint(1, 7 if big else 5)
    prog = [["new", 0, n]]
    nid = 1
    for _ in range(rng.randint(0, 6)):
        r = rng.random()
        if r < 0.12:
            prog.append(["barrier", 0, []])
        elif r < 0.22:
            prog.append(["swaps", 0, []])
        elif r < 0.30:
            prog.append(["barrier", 0, None])
        elif r < 0.45:
            k = rng.randint(1, n)
            prog.append(["unitary", nid, k, cg.rational_unitary(rng, k)])
            prog.append(["add", 0, nid, rng.randint(0, n - k), rng.random() < 0.5])
            nid += 1
        elif r < 0.55 and n >= 2:
            prog.append(["bs", 0, 0, n - 1, rng.randrange(len(cg.BSV)), cg.gen_value_loss(rng, 0.4), "Rx"])
        elif r < 0.62 and n >= 2:
            perm = list(range(n))
            rng.shuffle(perm)
            prog.append(["swaps", 0, [[i, p] for i, p in enumerate(perm)]])
        else:
            prog.append(cg.gen_primitive(rng, 0, n, loss_p=0.4))
    r = rng.random()
    if r < 0.25:
        hs = list(range(n))                      # every mode heralded
    elif r < 0.5:
        hs = [0] if n == 1 or rng.random() < 0.5 else [n - 1]
    elif r < 0.75:
        hs = sorted(rng.sample(range(n), rng.randint(0, n)))
    else:
        hs = []
    outs = list(hs)
    if rng.random() < 0.4:
        rng.shuffle(outs)
    for i, o in zip(hs, outs):
        prog.append(["herald", 0, rng.choice([0, 1, 2]), i, None if i == o else o])
    if rng.random() < 0.6:
        # wrap into a parent (grouping forced when heralds are present), possibly twice, then primitives over the span
        k = n - len(hs)
        pn = max(1, k + rng.randint(0, 2))
        parent = nid
        prog.append(["new", parent, pn])
        for _ in range(rng.randint(1, 2)):
            if rng.random() < 0.4:
                prog.append(cg.gen_primitive(rng, parent, pn, loss_p=0.3))
            prog.append(["add", parent, 0, rng.randint(0, pn - k) if k >= 1 else rng.randint(0, pn - 1), rng.random() < 0.5])
        for _ in range(rng.randint(0, 3)):
            r = rng.random()
            if r < 0.3:
                prog.append(["barrier", parent, None])
            elif r < 0.5 and pn >= 2:
                perm = list(range(pn))
                rng.shuffle(perm)
                prog.append(["swaps", parent, [[i, p] for i, p in enumerate(perm)]])
            elif r < 0.7 and pn >= 2:
                prog.append(["bs", parent, 0, pn - 1, rng.randrange(len(cg.BSV)), None, "H"])
            else:
                prog.append(cg.gen_primitive(rng, parent, pn, loss_p=0.3))
        if rng.random() < 0.3:
            prog.append(["herald", parent, 1, rng.choice([0, pn - 1]), None])
        if rng.random() < 0.15:
            prog.append(["unpack", parent])
    return prog


def exhaustive_small():
    """Sub-circuit of 1..3 modes with every subset of its modes heralded (incl. all of them: a group of heralds
    only), added at every position of a parent of 1..3 modes, twice (the second addition spans the first one's
    ancillas), followed by a barrier, a full-width swap and a full-width beam splitter."""
    progs = []
    for ns in (1, 2, 3):
        for hs in itertools.chain.from_iterable(itertools.combinations(range(ns), r) for r in range(ns + 1)):
            k = ns - len(hs)
            for pn in (1, 2, 3):
                if k > pn:
                    continue
                for pos in range(0, max(pn - k, 0) + 1) if k >= 1 else range(pn):
                    prog = [["new", 0, ns]]
                    if ns >= 2:
                        prog.append(["bs", 0, 0, ns - 1, 2, None, "Rx"])
                    for j, m in enumerate(hs):
                        prog.append(["herald", 0, j % 2, m, None])
                    prog += [["new", 1, pn], ["add", 1, 0, pos, False], ["barrier", 1, None],
                             ["add", 1, 0, (pn - k) - pos if k >= 1 else pn - 1 - pos, True]]
                    if pn >= 2:
                        prog.append(["swaps", 1, [[i, (i + 1) % pn] for i in range(pn)]])
                        prog.append(["bs", 1, pn - 1, 0, 3, 1, "H"])
                    prog.append(["ps", 1, pn - 1, 4, 2])
                    progs.append(prog)
    return progs


def all_svg_draws(t, vis, wrong):
    """every (display_loss, show_parameter_values) x labels None / right / wrong."""
    draws = []
    for loss in (False, True):
        for vals in (False, True):
            for k in (None, vis, wrong):
                draws.append([t, "svg", loss, vals, k])
    return draws


class C19:
    ID = "C19"
    RULE = ("circuit programs (circgen trees with heralded groups at any nesting, copy/unpack, rejected calls; single circuits with empty "
            "barriers/swaps, Unitary blocks of every size, heralds on first/last/every mode wrapped into parents; exhaustive small scope of "
            "herald subsets x positions x double addition; Parameter-valued bs/ps/loss with labels None/''/text and numeric/str values) "
            "x EVERY circuit of the pool as display target x {display_loss} x {show_parameter_values} x labels None/right/wrong length "
            "x svg (all 12 combinations per target), mpl (one valid + sampled invalid per target), unknown display type; label texts short / "
            "empty / long / blank and non-ASCII; group names and block labels of every length class incl. empty; one request per case repeated "
            "through Circuit.display(); circuits displayed after remove_non_adjacent_bs / compress_mode_swaps / frozen copy / + / unpack "
            "(implementation only). "
            "Non-trivial = a displayed target with >= 1 ancilla mode or >= 1 group or a Parameter; distinct = distinct case JSON")
    CHUNK = 25
    TRUSTED = ["matplotlib (Agg) / drawsvg object construction is outside the model (abstract primitives)",
               "secondary observables read from DrawCircuitSVG.draw_spec/.y_locations and from the returned Axes (patches, texts, yticks)"]
    ASSUMPTIONS = ["WF (Proofs/DisplayP.v) is proved preserved for the primitive calls and herald; for add/copy/unpack/+ it is "
                   "validated at run time: wf_check of the model and the same predicate on the real object hold on every circuit of every pool",
                   "Parameter values that are neither numbers nor strings, non-finite phases and non-string names are outside the property "
                   "(malformed stream: correspondence only)",
                   "zero-mode circuits are a recorded finding (sig=zero-mode-circuit); display_total assumes >= 1 mode"]

    # ---- generation
    def _case(self, rng, kind, prog, params, n_mpl):
        pool, _, _ = build(prog, params)
        draws = []
        ids = list(pool)
        for t in ids:
            c = pool[t]
            vis = c.n_modes - len(c._internal_modes)
            wrong = rng.choice([x for x in (vis - 1, vis + 1, 0, c.n_modes) if x >= 0 and x != vis])
            draws += all_svg_draws(t, vis, wrong)
        mpl_targets = ids if n_mpl is None else rng.sample(ids, min(n_mpl, len(ids)))
        for t in mpl_targets:
            c = pool[t]
            vis = c.n_modes - len(c._internal_modes)
            draws.append([t, "mpl", rng.random() < 0.5, rng.random() < 0.5, rng.choice([None, vis])])
        if ids:
            t = rng.choice(ids)
            c = pool[t]
            vis = c.n_modes - len(c._internal_modes)
            if rng.random() < 0.5:
                draws.append([t, "mpl", rng.random() < 0.5, rng.random() < 0.5, vis + 1])
            draws.append([t, rng.choice(["png", "", "SVG", "matplotlib"]), rng.random() < 0.5, rng.random() < 0.5,
                          rng.choice([None, vis, vis + 2])])
        return dict(kind=kind, prog=prog, params=params, draws=draws)

    def generate(self, rng, tier):
        quick = tier == "quick"
        big = not quick
        cases = []
        n_tree, n_prim, n_param = (45, 45, 30) if quick else (1500, 1300, 600)
        n_mpl = None
        cases.append(self._case(rng, "zero", [["new", 0, 0]], [], None))
        ex = exhaustive_small()
        if quick:
            ex = rng.sample(ex, 30)
        for prog in ex:
            cases.append(self._case(rng, "small", prog, [], None))
        for i in range(n_tree):
            bad = 0.2 if i % 5 == 4 else 0.0
            cases.append(self._case(rng, "tree", cg.gen_tree_program(rng, tier, bad=bad), [], n_mpl))
        for _ in range(n_prim):
            cases.append(self._case(rng, "prim", gen_prim_program(rng, big), [], n_mpl))
        for i in range(n_param):
            other = i % 3 == 2
            table = gen_params(rng, with_other=other)
            n = rng.randint(1, 4)
            prog = [["new", 0, n]] + gen_param_prims(rng, 0, n, table, rng.randint(1, 5))
            if rng.random() < 0.5:
                # the same parameterised circuit inside a parent: grouped (members not drawn) or inlined
                prog.append(["herald", 0, 1, rng.randrange(n), None]) if (n >= 2 and rng.random() < 0.5) else None
                k = n - sum(1 for o in prog if o[0] == "herald")
                pn = k + rng.randint(0, 1)
                if pn >= 1:
                    prog += [["new", 1, pn], ["add", 1, 0, rng.randint(0, pn - k), rng.random() < 0.5]]
                    prog += gen_param_prims(rng, 1, pn, table, rng.randint(0, 2))
            cases.append(self._case(rng, "param-other" if other else "param", prog, table, n_mpl))
        # circuits that went through the rewrites, a frozen copy or a sum before they are displayed (implementation only:
        # the display model is fed by construction calls); few draws per target
        for i in range(18 if quick else 300):
            r2 = random.Random(rng.randrange(10**9))
            table = gen_params(r2) if i % 2 else []
            if i % 3 == 0:
                prog = cg.gen_tree_program(r2, tier)
            else:
                prog = gen_prim_program(r2, big)
                if table:
                    n0 = prog[0][2]
                    prog[1:1] = gen_param_prims(r2, 0, n0, table, r2.randint(1, 3))
            ids = [o[1] for o in prog if o[0] in ("new", "unitary", "copy")]
            nid = max(ids) + 1
            for _ in range(r2.randint(1, 4)):
                x = r2.random()
                t = r2.choice(ids[-3:])
                if x < 0.35:
                    prog.append(["nonadj", t])
                elif x < 0.6:
                    prog.append(["compress", t])
                elif x < 0.75:
                    prog.append(["copyf", nid, t])
                    ids.append(nid)
                    nid += 1
                elif x < 0.9:
                    prog.append(["plus", nid, t, t])
                    ids.append(nid)
                    nid += 1
                else:
                    prog.append(["unpack", t])
            case = self._case(r2, "rw", prog, table, 1)
            keep = [d for j, d in enumerate(case["draws"]) if d[1] != "svg" or j % 4 == (i % 4)]
            case["draws"] = keep
            cases.append(case)
        return cases

    # ---- implementation
    def impl(self, c):
        pool, outcomes, params = build(c["prog"], c["params"])
        world = [[cid, cg.snapshot(pool[cid], with_u=False)] for cid in pool]
        wf = [[cid, wf_real(pool[cid])] for cid in pool]
        draws = []
        h = zlib.crc32(json.dumps(c["prog"]).encode())
        want_dt = "mpl" if h % 3 == 0 else "svg"
        method = None          # one request per case also goes through Circuit.display()
        method_done = False
        for i, (t, dt, loss, vals, k) in enumerate(c["draws"]):
            if t not in pool:
                draws.append({"out": {"err": "NoTarget"}, "ret": None, "pure": None})
                continue
            style = (h + i) % 4
            draws.append(observe_draw(pool[t], params, dt, loss, vals, k, style))
            cc = pool[t]
            vis = cc.n_modes - len(cc._internal_modes)
            valid = dt in ("svg", "mpl") and (k is None or k == vis)
            if not method_done and cc.n_modes >= 1 and ((valid and dt == want_dt and (h + i) % 5 < 2) or (not valid and (h + i) % 11 == 0)) \
                    and not any(p["v"][0] == "none" for p in c["params"]):
                method_done = True
                method = display_method(cc, params, dt, loss, vals, k, style, valid)
                if method:
                    method = f"circuit {t}: {method}"
        info = {cid: [pool[cid].n_modes, len(pool[cid]._internal_modes),
                      sum(1 for s in pool[cid]._get_circuit_spec() if type(s).__name__ == "Group")] for cid in pool}
        return [outcomes, world, draws, {"wf": wf, "info": [[k, v] for k, v in info.items()], "method": method, "method_called": method_done}]

    # ---- model
    def coq_header(self):
        return ("From Coq Require Import ZArith List.\nFrom Bignums Require Import BigQ.\n"
                "From LW Require Import Base.Sx Base.Num Model.Circuit Model.World Model.Display Exec.QNum Exec.RunCircuit Exec.RunC19.\n")

    def coq_expr(self, c):
        if c["kind"] == "rw":
            return "SL nil"
        envt = clist(f"({cz(p['v'][1])}, {cz(p['v'][2])})" if p["v"][0] == "num" else "(0%Z, 1%Z)" for p in c["params"])
        pt = clist(f"({cb(p['label'] is not None)}, {cz(PKIND[p['v'][0]])})" for p in c["params"])
        prog = clist("(" + op_to_coq(o) + ")" for o in c["prog"])
        draws = clist(f"({cn(t)}, {cz(DT_CODE.get(dt, 2))}, {cb(loss)}, {cb(vals)}, {copt(k, cn)})" for t, dt, loss, vals, k in c["draws"])
        return f"run_c19 {envt} {pt} {prog} {draws}"

    def decode(self, c, sx):
        if c["kind"] == "rw":
            return None
        outcomes = [({"ok": []} if r[0] == 0 else {"err": core.ERR_CODES.get(r[1], str(r[1]))}) for r in sx[0]]
        world = [[cid, cg.decode_snapshot(s)] for cid, s, _ in sx[1]]
        wf = [[cid, bool(w)] for cid, _, w in sx[1]]
        draws = []
        for (t, dt, loss, vals, k), d in zip(c["draws"], sx[2]):
            if len(d) == 1:
                draws.append({"out": {"err": "NoTarget"}})
                continue
            full, unit = d
            if (full[0] == 0) != (unit[0] == 0) or (full[0] != 0 and full[1] != unit[1]):
                raise RuntimeError("display and draw_full disagree in the model")
            if full[0] != 0:
                draws.append({"out": {"err": core.ERR_CODES.get(full[1], str(full[1]))}})
            else:
                ys, tr = full[1]
                if dt == "mpl":
                    draws.append({"out": {"ok": [ys, [x - 3 if x % 10 == 7 else x for x in tr if x != 0], sum(1 for x in tr if x == 0)]}})
                else:
                    draws.append({"out": {"ok": [ys, tr]}})
        return [outcomes, world, draws, {"wf": wf}]

    def compare(self, c, a, b):
        if c["kind"] == "rw":
            return None
        d = core.approx_equal(a[0], b[0], path="outcomes") or core.approx_equal(a[1], b[1], path="world")
        if d:
            return d
        for cid, ok in b[3]["wf"]:
            if not ok:
                return f"wf_check of the model is false on reachable circuit {cid}"
        for i, (x, y) in enumerate(zip(a[2], b[2])):
            d = core.approx_equal(x["out"], y["out"], path=f"draw[{i}]={c['draws'][i]}")
            if d:
                return d
        return None

    # ---- the property, stated directly on the implementation
    def _failures(self, c, obs):
        fails = []
        info = dict((k, v) for k, v in obs[3]["info"])
        for cid, msg in obs[3]["wf"]:
            if msg:
                fails.append(dict(kind="wf", t=cid, n=info[cid][0], err=None,
                                  text=f"circuit {cid} violates the well-formedness invariant: {msg}"))
        if obs[3].get("method"):
            fails.append(dict(kind="method", t=None, n=1, err=None, text=obs[3]["method"]))
        for (t, dt, loss, vals, k), d in zip(c["draws"], obs[2]):
            if t not in info:
                continue
            n, n_int, _ = info[t]
            vis = n - n_int
            out = d["out"]
            call = (f"Display(circuit {t} [{n} modes, {n_int} ancillas], display_type={dt!r}, display_loss={loss}, "
                    f"show_parameter_values={vals}, mode_labels={'None' if k is None else f'<{k} labels>'})")
            if d["pure"]:
                fails.append(dict(kind="pure", t=t, n=n, err=None, text=f"{call}: {d['pure']}"))
            if dt not in ("svg", "mpl"):
                exp = "DisplayError"
            elif k is not None and k != vis:
                exp = "DisplayError"
            else:
                exp = "ok"
            if exp == "ok":
                if "err" in out:
                    fails.append(dict(kind="raise", t=t, n=n, err=out["err"], text=f"{call} raised {out['err']}"))
                elif d["ret"] != ("Drawing" if dt == "svg" else "FigAx"):
                    fails.append(dict(kind="ret", t=t, n=n, err=None, text=f"{call} returned {d['ret']}"))
            elif out.get("err") != exp:
                fails.append(dict(kind="accept", t=t, n=n, err=out.get("err"),
                                  text=f"{call} with {vis} usable modes -> {out.get('err', 'a drawing')}, expected {exp}"))
        return fails

    def oracle(self, c, obs):
        if any(p["v"][0] == "none" for p in c["params"]):
            return None           # malformed stream: a Parameter holding None is outside the property
        fails = self._failures(c, obs)
        return fails[0]["text"] + (f" (+{len(fails) - 1} more)" if len(fails) > 1 else "") if fails else None

    def signature(self, c, rec):
        """zero-mode-circuit: the ONLY failures are svg/mpl displays of a circuit with n_modes == 0 raising ValueError
        (the model agrees: no correspondence difference)."""
        if rec.get("diff") or not isinstance(rec.get("impl"), list):
            return None
        fails = self._failures(c, rec["impl"])
        if fails and all(f["kind"] in ("raise", "accept") and f["err"] == "ValueError" and f["n"] == 0 for f in fails):
            return "zero-mode-circuit"
        return None

    def nontrivial(self, c, obs):
        if c["params"]:
            return True
        return any(v[1] >= 1 or v[2] >= 1 for _, v in obs[3]["info"])

    def stats(self, cases, recs):
        kinds = Counter(c["kind"] for c in cases)
        draws = Counter()
        outs = Counter()
        targets = 0
        anc = Counter()
        for r in recs:
            if not isinstance(r["impl"], list):
                continue
            targets += len(r["impl"][3]["info"])
            for _, v in r["impl"][3]["info"]:
                anc[min(v[1], 4)] += 1
            for (t, dt, loss, vals, k), d in zip(r["case"]["draws"], r["impl"][2]):
                draws[dt if dt in ("svg", "mpl") else "unknown"] += 1
                outs[d["out"].get("err", "ok")] += 1
        meth = sum(1 for r in recs if isinstance(r["impl"], list) and r["impl"][3].get("method_called"))
        return {"kinds": dict(kinds), "display_calls": dict(draws), "outcomes": dict(outs), "circuits_displayed": targets,
                "requests_repeated_through_Circuit.display()": meth,
                "ancilla_count_of_targets(4=4+)": dict(anc)}

    def shrink(self, c):
        # fewer draws first, then fewer ops
        if len(c["draws"]) > 1:
            for i in range(len(c["draws"])):
                d = copy.deepcopy(c)
                d["draws"] = [c["draws"][i]]
                yield d
        prog = c["prog"]
        for i in range(len(prog) - 1, -1, -1):
            op = prog[i]
            if op[0] in ("new", "unitary"):
                cid = op[1]
                if any(o is not op and (cid in o[1:3] if o[0] == "add" else (cid in o[1:4] if o[0] in ("copy", "plus") else o[1] == cid))
                       for o in prog) or any(dr[0] == cid for dr in c["draws"]):
                    continue
            d = copy.deepcopy(c)
            del d["prog"][i]
            yield d


PROP = C19()

if __name__ == "__main__":
    sys.exit(core.main(PROP))
