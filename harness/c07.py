"""C07 — sampling draws from the exact detected, heralded, post-selected distribution.

Correspondence = oracle-stream replay.  The implementation's RNGs are seeded
(`random.seed(s)` for Detector._get_output / Sampler.sample, numpy
`default_rng(s)` for Generator.choice), the harness pre-draws the same streams
and feeds them, together with the implementation's own probability
distribution (exact values of the floats), to the Coq model; the outputs must
agree sample by sample.  The statistical part of the property (convergence of
frequencies, PRNG quality) is OUTSIDE the proof and is checked by the oracle as
a labelled TEST with a rigorous (Chernoff) false-alarm bound.
"""
from __future__ import annotations

import copy
import functools
import json
import math
import random as pyrandom
import sys
from collections import Counter, defaultdict
from fractions import Fraction

import numpy as np

import core
from core import cb, clist, cn, cz, decode_res, guarded

import lightworks as lw
from lightworks import emulator as em
from lightworks.sdk.utils.post_selection import PostSelection

TWO53 = 2 ** 53
BOUNDARY = 1e-9
N7_SIG = "sampler-sample-ignores-heralds"
N7_PREFIX = "N7 Sampler.sample() ignores heralds"

# family-wise false-alarm budget of the statistical TEST: every cell test of a
# run gets alpha = FWER / MAX_CELLS; a run never has more than MAX_CELLS cells
FWER = 1e-9
MAX_CELLS = 10 ** 6
LOG_2_OVER_ALPHA = math.log(2 * MAX_CELLS / FWER)


# ----------------------------------------------------------------------------
# encoders
# ----------------------------------------------------------------------------
def c_fl(x):
    """exact value of a non-negative Python/numpy float as `fl m e` (= m*2^e)."""
    fr = Fraction(float(x))
    assert fr >= 0, x
    num, den = fr.numerator, fr.denominator
    e = -(den.bit_length() - 1)
    assert den == 1 << (-e)
    while num >= 2 ** 62:      # only for huge values, never for probabilities
        assert num % 2 == 0
        num //= 2
        e += 1
    return f"(fl {num}%uint63 {cz(e)})"


def c_stream(us):
    out = []
    for u in us:
        k = int(u * TWO53)
        assert k / TWO53 == u and 0 <= k < TWO53
        out.append(f"{k}%uint63")
    return clist(out)


def c_state(s):
    return clist(cz(x) for x in s)


def c_nats(l):
    return clist(cn(x) for x in l)


def c_det(d):
    return f"(qdet {c_fl(d['eff'])} {c_fl(d['pdark'])} {cb(d['pc'])})"


def c_dist(items):
    return clist(f"({c_state(s)}, {c_fl(p)})" for s, p in items)


def c_hdict(h):
    return clist(f"({cn(m)}, {cz(n)})" for m, n in h)


def c_pred(a):
    t = a[0]
    if t == "true":
        return "PTrue"
    if t == "false":
        return "PFalse"
    if t == "modeeq":
        return f"(PModeEq {cn(a[1])} {cz(a[2])})"
    if t == "modege":
        return f"(PModeGe {cn(a[1])} {cz(a[2])})"
    if t == "toteq":
        return f"(PTotEq {cz(a[1])})"
    if t == "totge":
        return f"(PTotGe {cz(a[1])})"
    if t == "sumeq":
        return f"(PSumEq {c_nats(a[1])} {cz(a[2])})"
    if t == "not":
        return f"(PNot {c_pred(a[1])})"
    if t == "and":
        return f"(PAnd {c_pred(a[1])} {c_pred(a[2])})"
    if t == "or":
        return f"(POr {c_pred(a[1])} {c_pred(a[2])})"
    raise ValueError(t)


def c_psel(ps):
    if ps is None:
        return "PSDefault"
    if "rules" in ps:
        return "(PSRules " + clist(f"(mkRule {c_nats(ms)} {c_state(ns)})" for ms, ns in ps["rules"]) + ")"
    return f"(PSFun {c_pred(ps['fun'])})"


# ----------------------------------------------------------------------------
# building lightworks objects from a case
# ----------------------------------------------------------------------------
def mk_pred(a):
    """AST -> a real Python function (FunctionType), same evaluation order as pred_eval."""
    t = a[0]
    if t == "true":
        return lambda s: True
    if t == "false":
        return lambda s: False
    if t == "modeeq":
        m, n = a[1], a[2]
        return lambda s: s[m] == n
    if t == "modege":
        m, n = a[1], a[2]
        return lambda s: s[m] >= n
    if t == "toteq":
        n = a[1]
        return lambda s: s.n_photons == n
    if t == "totge":
        n = a[1]
        return lambda s: s.n_photons >= n
    if t == "sumeq":
        ms, n = list(a[1]), a[2]
        return lambda s: sum(s[m] for m in ms) == n
    if t == "not":
        f = mk_pred(a[1])
        return lambda s: not f(s)
    if t == "and":
        f, g = mk_pred(a[1]), mk_pred(a[2])
        return lambda s: f(s) and g(s)
    if t == "or":
        f, g = mk_pred(a[1]), mk_pred(a[2])
        return lambda s: f(s) or g(s)
    raise ValueError(t)


def mk_psel(ps):
    if ps is None:
        return None
    if "rules" in ps:
        p = PostSelection(multi_rules=True)
        for ms, ns in ps["rules"]:
            p.add(tuple(ms), tuple(ns))
        return p
    return mk_pred(ps["fun"])


def mk_circuit(cfg):
    c = cfg["circ"]
    if c["kind"] == "unitary":
        circ = lw.Unitary(lw.random_unitary(c["n"], seed=c["useed"]))
    else:
        circ = lw.Circuit(c["n"])
        for op in c["ops"]:
            if op[0] == "bs":
                circ.bs(op[1], reflectivity=op[2])
            elif op[0] == "ps":
                circ.ps(op[1], op[2])
            elif op[0] == "loss":
                circ.loss(op[1], op[2])
    for n, mi, mo in cfg.get("heralds", []):
        circ.herald(n, mi, mo)
    return circ


def mk_source(cfg):
    s = cfg.get("source")
    return None if s is None else em.Source(**s)


def useed(rng):
    """seed of a random unitary (scipy: below 2^32)"""
    return rng.choice([0, 0, 1, rng.randint(0, 10 ** 6), rng.randint(0, 10 ** 6), rng.randint(0, 10 ** 6), rng.randint(0, 10 ** 6)])


def gseed(rng):
    """seeds are boundary-heavy: 0 is a valid seed and must seed every stream; any Python int is a valid seed"""
    return rng.choice([0, 0, 1, rng.randint(0, 10 ** 6), rng.randint(0, 10 ** 6), rng.randint(0, 10 ** 6), rng.randint(0, 10 ** 6),
                       2 ** 32 + rng.randint(0, 99), 2 ** 63 + rng.randint(0, 99)])


def _det_variant(d):
    return (int(round(d["eff"] * 1000)) + int(round(d["pdark"] * 1000)) + int(bool(d["pc"]))) % 3


def mk_detector(d):
    if _det_variant(d) == 1:
        # an ideal default detector re-configured through its setters must behave like one constructed with the values
        det = em.Detector()
        det.photon_counting = d["pc"]
        det.p_dark = d["pdark"]
        det.efficiency = d["eff"]
        return det
    if (int(round(d["eff"] * 1000)) // 3 + int(round(d["pdark"] * 1000)) // 3) % 2 == 1:
        # a detector that worked with other (imperfect) settings first and is then re-configured through its setters
        det = em.Detector(efficiency=0.3, p_dark=0.2, photon_counting=not d["pc"])
        st = pyrandom.getstate()
        det._get_output(lw.State([2, 0, 1]))
        pyrandom.setstate(st)
        det.efficiency = d["eff"]
        det.p_dark = d["pdark"]
        det.photon_counting = d["pc"]
        return det
    return em.Detector(efficiency=d["eff"], p_dark=d["pdark"], photon_counting=d["pc"])


def _decoy(circ, inp):
    """a default-constructed Sampler whose default Source/Detector are modified in place and which is then thrown
    away: later default-constructed objects must still get their own perfect Source and Detector"""
    try:
        d0 = em.Sampler(circ, lw.State(list(inp)))
        d0.source.brightness = 0.5
        d0.detector.efficiency = 0.5
        d0.detector.photon_counting = False
    except Exception:  # noqa: BLE001
        pass


def mk_sampler(cfg, det=None):
    circ = mk_circuit(cfg)
    _decoy(circ, cfg["input"])
    if det is not None and _det_variant(det) == 2:
        # the detector the Sampler creates itself, re-configured in place
        s = em.Sampler(circ, lw.State(list(cfg["input"])), source=mk_source(cfg))
        s.detector.efficiency = det["eff"]
        s.detector.p_dark = det["pdark"]
        s.detector.photon_counting = det["pc"]
        return s
    return em.Sampler(circ, lw.State(list(cfg["input"])), source=mk_source(cfg),
                      detector=None if det is None else mk_detector(det))


@functools.lru_cache(maxsize=4096)
def _sampler_info(cfg_json):
    """(dist items [(tuple state, float)], output heralds [(mode, n)], n_modes, input_modes)
    read from the implementation through its public properties."""
    cfg = json.loads(cfg_json)
    s = mk_sampler(cfg)
    pd = s.probability_distribution
    items = tuple((tuple(int(x) for x in k), float(v)) for k, v in pd.items())
    her = tuple((int(m), int(n)) for m, n in s.circuit.heralds["output"].items())
    return items, her, s.circuit.n_modes, s.circuit.input_modes


def sampler_info(cfg):
    return _sampler_info(json.dumps(cfg, sort_keys=True))


def mk_quick(cfg, pc, ps, form=None):
    if form == "setters":
        # created with the defaults (a discarded twin has its defaults changed first), then configured by assignment
        d0 = em.QuickSampler(mk_circuit(cfg), lw.State(list(cfg["input"])))
        d0.photon_counting = False
        q = em.QuickSampler(mk_circuit(cfg), lw.State(list(cfg["input"])))
        q.post_select = mk_psel(ps)
        q.photon_counting = pc
        return q
    return em.QuickSampler(mk_circuit(cfg), lw.State(list(cfg["input"])), photon_counting=pc,
                           post_select=mk_psel(ps))


@functools.lru_cache(maxsize=4096)
def _quick_info(key):
    cfg, pc, ps = json.loads(key)
    q = mk_quick(cfg, pc, ps)
    pd = q.probability_distribution
    return tuple((tuple(int(x) for x in k), float(v)) for k, v in pd.items())


def quick_info(cfg, pc, ps):
    return _quick_info(json.dumps([cfg, pc, ps], sort_keys=True))


def py_stream(seed, n):
    """the first n numbers random.random() yields after random.seed(seed)."""
    st = pyrandom.getstate()
    pyrandom.seed(seed)
    out = [pyrandom.random() for _ in range(n)]
    pyrandom.setstate(st)
    return out


def np_stream(seed, n):
    return [float(x) for x in np.random.default_rng(seed).random(n)]


def consumed(stream):
    """how many numbers of the global python stream were consumed since random.seed:
    position of the next draw inside the pre-drawn stream."""
    nxt = pyrandom.random()
    try:
        return stream.index(nxt)
    except ValueError:
        return -1


def cfg_of(c):
    return {k: c[k] for k in ("circ", "heralds", "input", "source") if k in c}


def max_photons(items):
    return max([sum(s) for s, _ in items] + [0])


def cdf_bounds(ps):
    tot = sum(Fraction(p) for p in ps)
    acc, out = Fraction(0), []
    if tot == 0:
        return out
    for p in ps:
        acc += Fraction(p)
        out.append(float(acc / tot))
    return out


def near_boundary(us, bounds):
    if not bounds or not us:
        return False
    b = np.array(sorted(set(bounds)))
    u = np.array(us)
    idx = np.searchsorted(b, u)
    lo = np.abs(u - b[np.clip(idx - 1, 0, len(b) - 1)])
    hi = np.abs(u - b[np.clip(idx, 0, len(b) - 1)])
    return bool(np.min(np.minimum(lo, hi)) < BOUNDARY)


# ----------------------------------------------------------------------------
# independent reference: post-selection evaluation, detector kernel, exact laws
# ----------------------------------------------------------------------------
def ref_pred(a, s):
    t = a[0]
    if t == "true":
        return True
    if t == "false":
        return False
    if t == "modeeq":
        return s[a[1]] == a[2]
    if t == "modege":
        return s[a[1]] >= a[2]
    if t == "toteq":
        return sum(s) == a[1]
    if t == "totge":
        return sum(s) >= a[1]
    if t == "sumeq":
        return sum(s[m] for m in a[1]) == a[2]
    if t == "not":
        return not ref_pred(a[1], s)
    if t == "and":
        return ref_pred(a[1], s) and ref_pred(a[2], s)
    if t == "or":
        return ref_pred(a[1], s) or ref_pred(a[2], s)
    raise ValueError(t)


def ref_psel(ps, s):
    """True/False; raises IndexError like the implementation would."""
    if ps is None:
        return True
    if "rules" in ps:
        for ms, ns in ps["rules"]:
            if sum(s[m] for m in ms) not in ns:
                return False
        return True
    return bool(ref_pred(ps["fun"], s))


def ref_kernel_mode(n, eta, pd, pc):
    """exact law of one mode: binomial thinning, then <=1 dark count, then cap."""
    out = defaultdict(float)
    for j in range(n + 1):
        w = math.comb(n, j) * (eta ** j) * ((1 - eta) ** (n - j))
        for extra, wd in ((1, pd), (0, 1 - pd)):
            if w * wd == 0:
                continue
            v = j + extra
            if not pc:
                v = min(v, 1)
            out[v] += w * wd
    return out


def ref_kernel(s, det):
    law = {(): 1.0}
    for n in s:
        km = ref_kernel_mode(n, det["eff"], det["pdark"], det["pc"])
        law = {k + (v,): w * wv for k, w in law.items() for v, wv in km.items()}
    return law


def ref_detect(items, det):
    tot = sum(p for _, p in items)
    out = defaultdict(float)
    for s, p in items:
        for t, w in ref_kernel(s, det).items():
            out[t] += p / tot * w
    return out


def ref_accept(full, heralds, ps, mind):
    """accepted reduced state or None (herald check, removal, post-selection, min detection)."""
    for m, n in heralds:
        if full[m] != n:
            return None
    hm = {m for m, _ in heralds}
    red = tuple(v for i, v in enumerate(full) if i not in hm)
    try:
        if ref_psel(ps, red) and sum(red) >= mind:
            return red
    except IndexError:      # the implementation raises on such a state, it can never be returned
        return None
    return None


def ref_law_inputs(items, det, heralds, ps, mind):
    """per clock cycle: probability of returning each reduced state (sums to the accepted mass)."""
    out = defaultdict(float)
    for full, w in ref_detect(items, det).items():
        r = ref_accept(full, heralds, ps, mind)
        if r is not None:
            out[r] += w
    return out


def ref_law_outputs(items, pc, heralds, ps, mind):
    """conditional law of sample_N_outputs (unit efficiency, no dark counts)."""
    det = dict(eff=1.0, pdark=0.0, pc=pc)
    un = ref_law_inputs(items, det, heralds, ps, mind)
    tot = sum(un.values())
    return {k: v / tot for k, v in un.items()} if tot > 0 else {}


def kl_bern(f, p):
    def t(a, b):
        return 0.0 if a == 0 else a * math.log(a / b)
    return t(f, p) + t(1 - f, 1 - p)


def stat_cells(counts, n, law, label):
    """Chernoff test of every cell: P(|f-p| as extreme) <= 2 exp(-n KL(f||p)).
    Returns None or a failure text.  `law` may be sub-normalised (per-cycle law)."""
    cells = 0
    for s in set(counts) | set(law):
        p = law.get(s, 0.0)
        k = counts.get(s, 0)
        cells += 1
        if p <= 1e-15:
            if k:
                return f"TEST {label}: state {s} observed {k}x but has probability 0 in the exact law"
            continue
        f = k / n
        p = min(p, 1 - 1e-15)
        if n * kl_bern(f, p) > LOG_2_OVER_ALPHA:
            return (f"TEST {label}: frequency of {s} = {f:.5f} vs exact {p:.5f} over {n} draws "
                    f"(n*KL={n * kl_bern(f, p):.1f} > {LOG_2_OVER_ALPHA:.1f}; family-wise alpha {FWER})")
    return None


# ----------------------------------------------------------------------------
# generators
# ----------------------------------------------------------------------------
EFFS = [1, 1.0, 0.9, 0.5, 0.25, 0.0, 0.999999]
PDARKS = [0, 0.0, 0.1, 0.5, 1e-3, 1.0]
REFL = [0.5, 0.36, 0.64, 0.0, 1.0, 0.2]


def g_det(rng, mode="any"):
    if mode == "perfect":
        return dict(eff=rng.choice([1, 1.0]), pdark=rng.choice([0, 0.0]), pc=True)
    if mode == "nodark":
        return dict(eff=rng.choice(EFFS), pdark=rng.choice([0, 0.0]), pc=rng.random() < 0.5)
    r = rng.random()
    if r < 0.1:
        return dict(eff=1, pdark=0, pc=True)
    eff = rng.choice(EFFS) if rng.random() < 0.7 else round(rng.uniform(0.05, 0.95), 3)
    pd = rng.choice(PDARKS) if rng.random() < 0.7 else round(rng.uniform(0.01, 0.6), 3)
    return dict(eff=eff, pdark=pd, pc=rng.random() < 0.5)


def g_cfg(rng, tier, heralds=None, lossy=False, source=False, max_modes=None):
    nmax = max_modes or (5 if tier == "quick" else 6)
    n = rng.randint(2, nmax)
    if rng.random() < 0.6:
        circ = dict(kind="unitary", n=n, useed=useed(rng))
    else:
        ops = []
        for _ in range(rng.randint(1, 2 * n)):
            r = rng.random()
            if r < 0.6:
                ops.append(["bs", rng.randint(0, n - 2), rng.choice(REFL)])
            elif r < 0.85 or not lossy:
                ops.append(["ps", rng.randint(0, n - 1), round(rng.uniform(0, 6.28), 3)])
            else:
                ops.append(["loss", rng.randint(0, n - 1), rng.choice([0.1, 0.3, 0.5])])
        circ = dict(kind="ops", n=n, ops=ops)
    nh = heralds if heralds is not None else rng.choice([0, 0, 1, 1, 2])
    nh = min(nh, n - 1)
    ins = rng.sample(range(n), nh)
    outs = rng.sample(range(n), nh)
    her = [[rng.choice([0, 1, 1, 1, 1, 1, 0, 1, 1, 2]), ins[i], outs[i]] for i in range(nh)]
    budget = (3 if tier == "quick" else 4) - sum(h[0] for h in her)
    inp = [0] * (n - nh)
    for _ in range(max(0, rng.randint(0 if nh else 1, max(1, budget)))):
        if budget <= 0 or not inp:
            break
        inp[rng.randrange(len(inp))] += 1
        budget -= 1
    cfg = dict(circ=circ, heralds=her, input=inp)
    if source and rng.random() < 0.7:
        cfg["source"] = dict(brightness=rng.choice([0.5, 0.8, 1.0]),
                             purity=rng.choice([1.0, 1.0, 0.9]),
                             indistinguishability=rng.choice([1.0, 0.8]))
    return cfg


def g_pred(rng, nm, depth=2, state_attr=True):
    r = rng.random()
    m = rng.randint(0, max(0, nm - 1)) if rng.random() < 0.93 else nm + rng.randint(0, 1)
    if depth > 0 and r < 0.3:
        k = rng.choice(["not", "and", "or"])
        if k == "not":
            return ["not", g_pred(rng, nm, depth - 1, state_attr)]
        return [k, g_pred(rng, nm, depth - 1, state_attr), g_pred(rng, nm, depth - 1, state_attr)]
    kinds = ["modeeq", "modege", "sumeq", "true"] + (["toteq", "totge"] if state_attr else [])
    k = rng.choice(kinds)
    if k == "modeeq":
        return ["modeeq", m, rng.randint(0, 2)]
    if k == "modege":
        return ["modege", m, rng.randint(0, 2)]
    if k == "sumeq":
        ms = [rng.randint(0, max(0, nm - 1)) for _ in range(rng.randint(0, 3))]
        return ["sumeq", ms, rng.randint(0, 2)]
    if k == "toteq":
        return ["toteq", rng.randint(0, 3)]
    if k == "totge":
        return ["totge", rng.randint(0, 3)]
    return [rng.choice(["true", "true", "false"])]


def g_psel(rng, nm, state_attr=True):
    r = rng.random()
    if r < 0.3:
        return None
    if r < 0.65:
        rules = []
        for _ in range(rng.randint(1, 2)):
            ms = sorted(set(rng.randint(0, max(0, nm - 1)) for _ in range(rng.randint(1, 2))))
            if rng.random() < 0.05:
                ms.append(nm)          # out of range -> IndexError when evaluated
            ns = sorted(set(rng.randint(0, 2) for _ in range(rng.randint(1, 2))))
            rules.append([ms, ns])
        return dict(rules=rules)
    return dict(fun=g_pred(rng, nm, 2, state_attr))


def g_psel_sat(rng, c, nm):
    """mostly satisfiable post-selections: redraw (85%) one that no heralded output can pass."""
    items, her, _, _ = sampler_info(cfg_of(c))
    if her and max(n for _, n in her) > 1 and not c["det"]["pc"] and rng.random() < 0.7:
        c["det"]["pc"] = True
    for _ in range(6):
        ps = g_psel(rng, nm)
        try:
            law = ref_law_inputs(items, dict(eff=1.0, pdark=0.0, pc=c["det"]["pc"]), her, ps, 0)
        except Exception:  # noqa: BLE001
            law = {}
        if law or rng.random() < 0.15:
            return ps
    return None


def g_mind(rng, c):
    """min_detection at the equality boundary: k-1, k, k+1 for a photon number k that kept states
    actually have (perfect-detector law; efficiency / dark counts move the real numbers around it)."""
    items, her, _, _ = sampler_info(cfg_of(c))
    try:
        law = ref_law_inputs(items, dict(eff=1.0, pdark=0.0, pc=c["det"]["pc"]), her, c["psel"], 0)
    except Exception:  # noqa: BLE001
        law = {}
    phs = sorted({sum(s) for s in law})
    if not phs or rng.random() < 0.25:
        return rng.choice([0, 0, 0, 1])
    k = rng.choice(phs)
    return max(0, rng.choice([k - 1, k, k, k, k + 1 if rng.random() < 0.5 else k]))


def _bad_total(items):
    t = float(sum(Fraction(p) for _, p in items))
    d = abs(t - 1)
    return (1e-10 < d < 1e-7) or abs(d - 0.01) < 1e-6 or t <= 0


class C07:
    ID = "C07"
    RULE = ("random small circuits (2-6 modes, random unitaries or bs/ps/loss programs, 0-2 heralds with 0-2 photons, "
            "<=4 photons, optional imperfect source) whose probability_distribution is read from the implementation; "
            "detector settings drawn from boundary tables (efficiency 0/0.25/0.5/0.9/1, p_dark 0/1e-3/0.1/0.5/1, photon "
            "counting on/off) and uniformly; post-selection = None / PostSelection rules / functions from a small "
            "predicate language (incl. out-of-range modes); min_detection at k-1,k,k+1 of the photon number of kept states; "
            "seeds random. Oracle-stream replay of Detector._get_output, Sampler.sample, sample_N_inputs, sample_N_outputs, "
            "QuickSampler.sample / sample_N_outputs; PostSelection add/validate programs; malformed arguments; "
            "statistical TEST cases; histories on the sampling object (other methods, other arguments and rejected calls first; the call repeated "
            "with the same seed on the same object; no previous read of the distribution; no seed), positional arguments, detectors re-configured "
            "after use, QuickSampler configured through its setters, seeds 0 / 1 / 2^32+k / 2^63+k. Non-trivial = a sampling case with an imperfect detector, a herald, a post-selection "
            "or min_detection>0, or a post-selection program with >=1 rule; distinct = distinct canonical JSON")
    TRUSTED = [
        "numpy Generator.choice(p=..) == searchsorted(cumsum(p)/cumsum(p)[-1], Generator.random(N), side='right') and python "
        "random.seed/random.random produce the streams the harness pre-draws (re-checked on every run by the replay itself)",
        "measure-theoretic fact used by C07_get_output_law: a uniform u in [0,1) satisfies u<p with probability p and u>p with probability 1-p",
        "statistical TEST (outside proof): Chernoff bound P(|f-p| at least as extreme) <= 2exp(-n KL(f||p)) per cell, union bound over <=1e6 cells, family-wise alpha 1e-9; exact law from an independent Python implementation of the detector kernel",
        "model executed at bigQ, theorems proved for every commutative ring (get_output_law), for Q (inverse_cdf_law) and for arbitrary K (filters): the model is parametric in the number type",
    ]
    ASSUMPTIONS = [
        "draws within 1e-9 of a CDF boundary are excluded (case regenerated with another seed): the model sums the exact float values, numpy/python sum them in floating point",
        "sample_N_outputs ignores Detector.efficiency (modelled as is); the property restricts sample_N_outputs to unit efficiency as documented",
        "Sampler.sample() returns the full state incl. herald modes without a herald check (known finding N7, modelled faithfully)",
        "QuickSampler hands plain lists (not State objects) to the post-selection function, so predicates using State attributes (s.n_photons) raise AttributeError there; QuickSampler cases use index-based predicates and PostSelection rules only",
        "PostSelectionFunction predicates are drawn from a small language (mode ==/>=, total ==/>=, mode-sum ==, not/and/or); the theorems quantify over every function state -> bool-or-exception",
    ]
    CHUNK = 12

    # ---------------------------------------------------------------- generate
    def _fix_seed(self, c, bounds_fn):
        """bump the seed until no draw is within 1e-9 of a CDF boundary."""
        for _ in range(20):
            if not bounds_fn(c):
                return c
            c["seed"] += 1000003
        return c

    def _near(self, c):
        k = c["kind"]
        if k in ("n_inputs", "n_outputs"):
            items, her, _, _ = sampler_info(cfg_of(c))
            if _bad_total(items):
                return True
            us = np_stream(c["seed"], c["N"])
            if k == "n_inputs":
                return near_boundary(us, cdf_bounds([p for _, p in items]))
            law = ref_new_dist(items, c["det"]["pc"], her, c["psel"], c["mind"])
            return near_boundary(us, cdf_bounds(law)) if law else False
        if k == "sample":
            items, _, nm, _ = sampler_info(cfg_of(c))
            us = py_stream(c["seed"], c["M"] * (1 + max_photons(items) + nm))
            return near_boundary(us, cdf_bounds([p for _, p in items]))
        if k in ("qs_sample", "qs_n_outputs"):
            items = quick_info(cfg_of(c), c["pc"], c["psel"])
            n = c["M"] if k == "qs_sample" else c["N"]
            us = py_stream(c["seed"], n) if k == "qs_sample" else np_stream(c["seed"], n)
            return near_boundary(us, cdf_bounds([p for _, p in items]))
        return False

    def _try(self, make, tries=30):
        """make() -> case; retried when the implementation cannot even build the configuration."""
        for _ in range(tries):
            c = make()
            try:
                c = self._fix_seed(c, self._near)
                if self._near(c):
                    continue
                return c
            except Exception:  # noqa: BLE001  (configuration rejected by lightworks: draw another)
                continue
        return None

    def generate(self, rng, tier):
        q = tier == "quick"
        cases = []
        add = lambda c: cases.append(c) if c is not None else None  # noqa: E731
        nd = 200 if q else 400

        # -- Detector._get_output on explicit states (boundary tables exhaustively, then random)
        states = [[0], [1], [2], [3], [0, 0], [1, 1], [2, 0, 1], [0, 3, 0, 1], [1, 1, 1, 1, 1]]
        k = 0
        for eff in (1, 0.5, 0.0, 1.0):
            for pdk in (0, 0.5, 1.0):
                for pc in (True, False):
                    add(dict(kind="getout", det=dict(eff=eff, pdark=pdk, pc=pc), state=states[k % len(states)],
                             reps=20, seed=gseed(rng)))
                    k += 1
        for _ in range(40 if q else 600):
            st = [rng.choice([0, 0, 1, 1, 2, 3]) for _ in range(rng.randint(1, 6))]
            add(dict(kind="getout", det=g_det(rng), state=st, reps=rng.choice([1, 10, 40]), seed=gseed(rng)))

        # -- sample_N_inputs
        for i in range(70 if q else 1500):
            def mk():
                cfg = g_cfg(rng, tier, lossy=rng.random() < 0.25, source=rng.random() < 0.3)
                nm = len(cfg["input"])
                ph = sum(cfg["input"])
                c = dict(kind="n_inputs", **cfg, det=g_det(rng), psel=None, mind=0,
                         N=rng.choice([0, 1, 7, nd, nd, nd]), seed=gseed(rng))
                c["psel"] = g_psel_sat(rng, c, nm)
                c["mind"] = g_mind(rng, c)
                c["warm"] = rng.random() < 0.5
                c["pos"] = rng.random() < 0.3
                return c
            add(self._try(mk))

        # -- sample_N_outputs
        for i in range(50 if q else 1000):
            def mk():
                cfg = g_cfg(rng, tier, lossy=rng.random() < 0.3, source=rng.random() < 0.5)
                nm = len(cfg["input"])
                ph = sum(cfg["input"])
                det = g_det(rng, "nodark") if rng.random() < 0.9 else g_det(rng)
                c = dict(kind="n_outputs", **cfg, det=det, psel=None, mind=0,
                         N=rng.choice([0, 1, 7, nd, nd, nd]), seed=gseed(rng))
                c["psel"] = g_psel_sat(rng, c, nm)
                c["mind"] = g_mind(rng, c)
                c["warm"] = rng.random() < 0.5
                c["pos"] = rng.random() < 0.3
                return c
            add(self._try(mk))

        # -- threshold detectors with a heralded mode that can hold >= 2 photons: the cap acts BEFORE the herald check
        for i in range(14 if q else 250):
            def mk():
                n = rng.randint(3, 4)
                inp = [0] * (n - 1)
                for _ in range(2):
                    inp[rng.randrange(n - 1)] += 1
                cfg = dict(circ=dict(kind="unitary", n=n, useed=useed(rng)),
                           heralds=[[1, rng.randrange(n), rng.randrange(n)]], input=inp)
                kind = "n_outputs" if i % 2 == 0 else "n_inputs"
                det = dict(eff=1.0, pdark=0.0, pc=False) if kind == "n_outputs" else dict(
                    eff=rng.choice([1, 0.9, 0.5]), pdark=rng.choice([0, 0.1]), pc=False)
                c = dict(kind=kind, **cfg, det=det, psel=None, mind=rng.choice([0, 1, 1, 2]),
                         N=nd, seed=gseed(rng))
                if rng.random() < 0.4:
                    c["psel"] = g_psel_sat(rng, c, n - 1)
                c["warm"] = rng.random() < 0.5
                return c
            add(self._try(mk))

        # -- Sampler.sample()
        for i in range(40 if q else 800):
            def mk():
                cfg = g_cfg(rng, tier, heralds=rng.choice([0, 0, 0, 1, 2]), lossy=rng.random() < 0.2,
                            source=rng.random() < 0.3)
                return dict(kind="sample", **cfg, det=g_det(rng), M=rng.choice([1, 20, nd // 2]),
                            seed=gseed(rng), warm=rng.random() < 0.4, noread=rng.random() < 0.5)
            add(self._try(mk))

        # -- QuickSampler
        for i in range(40 if q else 600):
            def mk():
                cfg = g_cfg(rng, tier, max_modes=4 if q else 5)
                nm = len(cfg["input"])
                kind = "qs_sample" if i % 2 else "qs_n_outputs"
                c = dict(kind=kind, **cfg, pc=rng.random() < 0.6, psel=g_psel(rng, nm, state_attr=False),
                         seed=gseed(rng))
                c["M" if kind == "qs_sample" else "N"] = rng.choice([0, 1, 30, nd]) if kind != "qs_sample" else rng.choice([1, 30, nd // 2])
                c.update(warm=rng.random() < 0.4, noread=rng.random() < 0.5, form=rng.choice([None, None, "setters"]))
                return c
            add(self._try(mk))

        # -- PostSelection objects and predicate functions
        for i in range(40 if q else 500):
            nm = rng.randint(1, 5)
            prog = []
            for _ in range(rng.randint(0, 4)):
                ms = [rng.randint(-1 if rng.random() < 0.1 else 0, nm) for _ in range(rng.randint(1, 3))]
                ns = [rng.randint(-1 if rng.random() < 0.1 else 0, 3) for _ in range(rng.randint(1, 2))]
                prog.append([ms, ns, rng.random() < 0.3])   # third: pass bare ints when singleton
            sts = [[rng.choice([0, 0, 1, 1, 2]) for _ in range(rng.choice([nm, nm, nm + 1, max(1, nm - 1)]))]
                   for _ in range(4)]
            add(dict(kind="postsel", multi=rng.random() < 0.5, prog=prog, states=sts))
        for i in range(40 if q else 500):
            nm = rng.randint(1, 5)
            sts = [[rng.choice([0, 0, 1, 1, 2]) for _ in range(rng.choice([nm, nm, nm + 1]))] for _ in range(4)]
            add(dict(kind="pred", fun=g_pred(rng, nm, 3), states=sts))

        # -- malformed arguments (oracle only)
        for what in ("min_detection_float", "min_detection_bool", "post_select_int", "psf_not_function",
                     "eff_range", "eff_bool", "pdark_range", "pc_int", "seed_float", "seed_str",
                     "ps_add_float", "ps_add_negative"):
            add(dict(kind="malformed", what=what))

        # -- statistical TEST cases (outside proof)
        add(dict(kind="stat", sub="getout", det=dict(eff=0.6, pdark=0.2, pc=True), state=[2, 0, 1], n=200000, seed=11))
        add(dict(kind="stat", sub="getout", det=dict(eff=0.5, pdark=0.3, pc=False), state=[3, 1], n=200000, seed=12))
        base = dict(circ=dict(kind="unitary", n=4, useed=7), heralds=[[1, 0, 2]], input=[1, 1, 0])
        add(dict(kind="stat", sub="n_inputs", **base, det=dict(eff=0.7, pdark=0.15, pc=True),
                 psel=None, mind=2, n=200000, seed=21))
        add(dict(kind="stat", sub="n_inputs", **base, det=dict(eff=0.5, pdark=0.3, pc=False),
                 psel=dict(rules=[[[0, 1], [1, 2]]]), mind=1, n=200000, seed=22))
        add(dict(kind="stat", sub="n_outputs", **base, det=dict(eff=1.0, pdark=0.0, pc=False),
                 psel=dict(fun=["modege", 0, 1]), mind=1, n=200000, seed=23))
        nohe = dict(circ=dict(kind="unitary", n=3, useed=5), heralds=[], input=[1, 1, 0])
        add(dict(kind="stat", sub="sample", **nohe, det=dict(eff=0.8, pdark=0.1, pc=True), n=200000, seed=24))
        add(dict(kind="stat", sub="qs_n_outputs", **base, pc=False, psel=None, n=200000, seed=25))
        add(dict(kind="stat", sub="qs_sample", **nohe, pc=True, psel=dict(fun=["modege", 0, 1]), n=200000, seed=26))
        if not q:
            for j in range(12):
                def mk():
                    cfg = g_cfg(rng, "quick", heralds=rng.choice([0, 1, 1]))
                    sampler_info(cfg)
                    return dict(kind="stat", sub=rng.choice(["n_inputs", "n_inputs", "n_outputs", "sample"]), **cfg,
                                det=dict(eff=rng.choice([0.3, 0.6, 0.9, 1.0]), pdark=rng.choice([0.0, 0.05, 0.3]),
                                         pc=rng.random() < 0.5),
                                psel=None, mind=0, n=200000, seed=100 + j)
                c = self._try(mk)
                if c is not None:
                    c["mind"] = g_mind(rng, c)
                if c is not None:
                    if c["sub"] == "n_outputs":
                        c["det"]["eff"], c["det"]["pdark"] = 1.0, 0.0
                    if c["sub"] == "sample":
                        c["heralds"] = []
                        try:
                            sampler_info(cfg_of(c))
                        except Exception:  # noqa: BLE001
                            c = None
                    if c is not None:
                        try:
                            items, her, _, _ = sampler_info(cfg_of(c))
                            if any(n > 1 for _, n in her) and not c["det"]["pc"]:
                                c["det"]["pc"] = True
                            add(c)
                        except Exception:  # noqa: BLE001
                            pass
        return cases

    # -------------------------------------------------------------------- impl
    def impl(self, c):
        k = c["kind"]
        if k == "getout":
            det = mk_detector(c["det"])
            n = c["reps"] * (sum(c["state"]) + len(c["state"]))
            stream = py_stream(c["seed"], n + 1)
            det._set_random_seed(c["seed"])
            outs = [list(det._get_output(lw.State(list(c["state"])))) for _ in range(c["reps"])]
            return {"outs": outs, "used": consumed(stream)}
        if k == "sample":
            items, _, nm, _ = sampler_info(cfg_of(c))
            stream = py_stream(c["seed"], c["M"] * (1 + max_photons(items) + nm) + 1)
            s = mk_sampler(cfg_of(c), c["det"])
            if not c.get("noread"):
                s.probability_distribution  # noqa: B018
            if c.get("warm"):
                # the object has sampled before (all three methods, one call rejected): the draws after seeding are the same
                for call in (lambda: s.sample(), lambda: s.sample_N_inputs(3, seed=5), lambda: s.sample_N_outputs(3, seed=5),
                             lambda: s.sample_N_inputs(3, min_detection=0.5), lambda: s.sample()):
                    try:
                        call()
                    except Exception:  # noqa: BLE001
                        pass
            pyrandom.seed(c["seed"])
            outs = [list(s.sample()) for _ in range(c["M"])]
            return {"ok": {"outs": outs, "used": consumed(stream)}}
        if k in ("n_inputs", "n_outputs"):
            items, _, nm, _ = sampler_info(cfg_of(c))
            s = mk_sampler(cfg_of(c), c["det"])
            ps = mk_psel(c["psel"])
            f = s.sample_N_inputs if k == "n_inputs" else s.sample_N_outputs
            g = s.sample_N_outputs if k == "n_inputs" else s.sample_N_inputs
            cnt = lambda r: [[list(st), int(n)] for st, n in r.items()]  # noqa: E731
            if c.get("pos"):
                call = lambda: f(c["N"], ps, c["mind"], c["seed"])  # noqa: E731
            else:
                call = lambda: f(c["N"], post_select=ps, min_detection=c["mind"], seed=c["seed"])  # noqa: E731
            if c.get("warm"):
                # history on the object that answers: the other method, this method with other arguments, a sample(),
                # two rejected calls - the observed call must give what a fresh object gives
                for w in (lambda: g(4, seed=c["seed"] + 1), lambda: f(5, seed=3), lambda: s.sample(),
                          lambda: f(5, post_select=(lambda st: False), seed=2), lambda: f(5, min_detection=1.5, seed=1),
                          lambda: f(5, post_select=7, seed=1)):
                    try:
                        w()
                    except Exception:  # noqa: BLE001
                        pass
            if k == "n_inputs":
                stream = py_stream(c["seed"], c["N"] * (max_photons(items) + nm) + 1)

                def run():
                    r = call()
                    return {"counts": cnt(r), "used": consumed(stream)}
                first = guarded(run)
            else:
                first = guarded(lambda: {"counts": cnt(call())})
            # a fixed seed reproduces the same result: on the same object ...
            first["_same"] = guarded(lambda: cnt(call()))
            # ... and on a fresh object
            s2 = mk_sampler(cfg_of(c), c["det"])
            ps2 = mk_psel(c["psel"])
            f2 = s2.sample_N_inputs if k == "n_inputs" else s2.sample_N_outputs
            second = guarded(lambda: cnt(f2(c["N"], post_select=ps2, min_detection=c["mind"], seed=c["seed"])))
            first["_again"] = second
            # without a seed: every returned state still satisfies heralds, post-selection and min_detection
            first["_noseed"] = guarded(lambda: cnt(f2(c["N"], post_select=ps2, min_detection=c["mind"])))
            return first
        if k in ("qs_sample", "qs_n_outputs"):
            def run():
                qs = mk_quick(cfg_of(c), c["pc"], c["psel"], c.get("form"))
                if not c.get("noread"):
                    qs.probability_distribution  # noqa: B018
                if c.get("warm"):
                    for w in (lambda: qs.sample(), lambda: qs.sample_N_outputs(3, seed=5), lambda: qs.sample_N_outputs(3, seed="x")):
                        try:
                            w()
                        except Exception:  # noqa: BLE001
                            pass
                if k == "qs_sample":
                    stream = py_stream(c["seed"], c["M"] + 1)
                    pyrandom.seed(c["seed"])
                    outs = [list(qs.sample()) for _ in range(c["M"])]
                    return {"outs": outs, "used": consumed(stream)}
                r = qs.sample_N_outputs(c["N"], seed=c["seed"])
                r1 = qs.sample_N_outputs(c["N"], seed=c["seed"])            # same object, same seed
                q2 = mk_quick(cfg_of(c), c["pc"], c["psel"])
                r2 = q2.sample_N_outputs(c["N"], seed=c["seed"])            # fresh object, same seed
                r3 = q2.sample_N_outputs(c["N"])                            # no seed
                return {"supported": True, "counts": [[list(st), int(n)] for st, n in r.items()],
                        "_again": [[list(st), int(n)] for st, n in r2.items()],
                        "_same": [[list(st), int(n)] for st, n in r1.items()],
                        "_noseed": [[list(st), int(n)] for st, n in r3.items()]}
            return guarded(run)
        if k == "postsel":
            p = PostSelection(multi_rules=c["multi"])
            outs = []
            for ms, ns, bare in c["prog"]:
                a = ms[0] if (bare and len(ms) == 1) else tuple(ms)
                b = ns[0] if (bare and len(ns) == 1) else tuple(ns)
                r = guarded(lambda: p.add(a, b))
                outs.append("ok" if "ok" in r else r["err"])
            rules = [[list(r.modes), list(r.n_photons)] for r in p.rules]
            vals = [guarded(lambda st=st: bool(p.validate(lw.State(list(st))))) for st in c["states"]]
            return {"outs": outs, "rules": rules, "modes": list(p.modes), "vals": vals}
        if k == "pred":
            from lightworks.emulator.utils import process_post_selection
            f = process_post_selection(mk_pred(c["fun"]))
            return [guarded(lambda st=st: bool(f.validate(lw.State(list(st))))) for st in c["states"]]
        if k == "malformed":
            return self._malformed(c["what"])
        if k == "stat":
            return self._stat_impl(c)
        return None

    def _malformed(self, what):
        cfg = dict(circ=dict(kind="unitary", n=3, useed=1), heralds=[], input=[1, 0, 1])
        s = mk_sampler(cfg)
        calls = {
            "min_detection_float": lambda: [guarded(lambda f=f: f(5, min_detection=1.0, seed=1)) for f in (s.sample_N_inputs, s.sample_N_outputs)],
            "min_detection_bool": lambda: [guarded(lambda f=f: f(5, min_detection=True, seed=1)) for f in (s.sample_N_inputs, s.sample_N_outputs)],
            "post_select_int": lambda: [guarded(lambda f=f: f(5, post_select=5, seed=1)) for f in (s.sample_N_inputs, s.sample_N_outputs)]
                                       + [guarded(lambda: em.QuickSampler(mk_circuit(cfg), lw.State([1, 0, 1]), post_select=5))],
            "psf_not_function": lambda: [guarded(lambda: lw.sdk.utils.PostSelectionFunction(5))],
            "eff_range": lambda: [guarded(lambda v=v: em.Detector(efficiency=v)) for v in (-0.1, 1.1)],
            "eff_bool": lambda: [guarded(lambda: em.Detector(efficiency=True)), guarded(lambda: em.Detector(efficiency="1"))],
            "pdark_range": lambda: [guarded(lambda v=v: em.Detector(p_dark=v)) for v in (-0.1, 1.1)] + [guarded(lambda: em.Detector(p_dark=False))],
            "pc_int": lambda: [guarded(lambda: em.Detector(photon_counting=1))],
            "seed_float": lambda: [guarded(lambda f=f: f(5, seed=1.5)) for f in (s.sample_N_inputs, s.sample_N_outputs)],
            "seed_str": lambda: [guarded(lambda f=f: f(5, seed="a")) for f in (s.sample_N_inputs, s.sample_N_outputs)],
            "ps_add_float": lambda: [guarded(lambda: PostSelection().add(0.5, 1)), guarded(lambda: PostSelection().add(0, 1.5)),
                                     guarded(lambda: (lambda p: (p.add(1.0, 2.0), [r.as_tuple() for r in p.rules])[1])(PostSelection()))],
            "ps_add_negative": lambda: [guarded(lambda: PostSelection().add(-1, 1)), guarded(lambda: PostSelection().add(1, -1))],
        }
        out = calls[what]()
        return [({"err": r["err"]} if "err" in r else {"ok": str(r["ok"])[:60]}) for r in out]

    def _stat_impl(self, c):
        try:
            return self._stat_impl_inner(c)
        except Exception as e:  # noqa: BLE001
            return {"err": type(e).__name__, "msg": str(e)[:200]}

    def _stat_impl_inner(self, c):
        sub, n, seed = c["sub"], c["n"], c["seed"]
        if sub == "getout":
            det = mk_detector(c["det"])
            res = []
            for rep in range(2):
                det._set_random_seed(seed)
                st = lw.State(list(c["state"]))
                cnt = Counter(tuple(det._get_output(st)) for _ in range(n))
                res.append(sorted([list(k), v] for k, v in cnt.items()))
            return {"counts": res[0], "same": res[0] == res[1]}
        if sub in ("n_inputs", "n_outputs"):
            res = []
            for rep in range(2):
                s = mk_sampler(cfg_of(c), c["det"])
                f = s.sample_N_inputs if sub == "n_inputs" else s.sample_N_outputs
                r = f(n, post_select=mk_psel(c["psel"]), min_detection=c["mind"], seed=seed)
                res.append([[list(k), int(v)] for k, v in r.items()])
            return {"counts": res[0], "same": res[0] == res[1]}
        if sub == "sample":
            res = []
            for rep in range(2):
                s = mk_sampler(cfg_of(c), c["det"])
                s.probability_distribution  # noqa: B018
                pyrandom.seed(seed)
                cnt = Counter(tuple(s.sample()) for _ in range(n))
                res.append(sorted([list(k), v] for k, v in cnt.items()))
            return {"counts": res[0], "same": res[0] == res[1]}
        if sub in ("qs_n_outputs", "qs_sample"):
            res = []
            for rep in range(2):
                qs = mk_quick(cfg_of(c), c["pc"], c["psel"])
                qs.probability_distribution  # noqa: B018
                if sub == "qs_n_outputs":
                    r = qs.sample_N_outputs(n, seed=seed)
                    res.append([[list(k), int(v)] for k, v in r.items()])
                else:
                    pyrandom.seed(seed)
                    cnt = Counter(tuple(qs.sample()) for _ in range(n))
                    res.append(sorted([list(k), v] for k, v in cnt.items()))
            return {"counts": res[0], "same": res[0] == res[1]}
        return None

    # ------------------------------------------------------------------- model
    def coq_header(self):
        return ("From Coq Require Import ZArith List Bool Uint63.\n"
                "From LW Require Import Base.Sx Base.Num Model.State Model.PostSel Model.Detector Exec.QNum Exec.RunC07.\n")

    def coq_expr(self, c):
        k = c["kind"]
        try:
            if k == "getout":
                n = c["reps"] * (sum(c["state"]) + len(c["state"]))
                us = py_stream(c["seed"], n)
                return f"run_getout_reps {c_det(c['det'])} {c_state(c['state'])} {cn(c['reps'])} {c_stream(us)}"
            if k == "sample":
                items, _, nm, _ = sampler_info(cfg_of(c))
                us = py_stream(c["seed"], c["M"] * (1 + max_photons(items) + nm))
                return f"run_sample {c_det(c['det'])} {c_dist(items)} {cn(c['M'])} {c_stream(us)}"
            if k == "n_inputs":
                items, her, nm, _ = sampler_info(cfg_of(c))
                un = np_stream(c["seed"], c["N"])
                ud = py_stream(c["seed"], c["N"] * (max_photons(items) + nm))
                return (f"run_n_inputs {c_det(c['det'])} {c_hdict(her)} {c_psel(c['psel'])} {cz(c['mind'])} "
                        f"{c_dist(items)} {c_stream(un)} {c_stream(ud)}")
            if k == "n_outputs":
                items, her, nm, _ = sampler_info(cfg_of(c))
                un = np_stream(c["seed"], c["N"])
                return (f"run_n_outputs {c_det(c['det'])} {c_hdict(her)} {c_psel(c['psel'])} {cz(c['mind'])} "
                        f"{c_dist(items)} {c_stream(un)}")
            if k == "qs_sample":
                items = quick_info(cfg_of(c), c["pc"], c["psel"])
                return f"run_qs_sample {c_dist(items)} {cn(c['M'])} {c_stream(py_stream(c['seed'], c['M']))}"
            if k == "qs_n_outputs":
                items = quick_info(cfg_of(c), c["pc"], c["psel"])
                return (f"run_qs_n_outputs {cn(len(c['input']))} {cn(sum(c['input']))} {cb(c['pc'])} {c_psel(c['psel'])} "
                        f"{c_dist(items)} {c_stream(np_stream(c['seed'], c['N']))}")
            if k == "postsel":
                prog = clist(f"({c_state(ms)}, {c_state(ns)})" for ms, ns, _ in c["prog"])
                return f"run_postsel {cb(c['multi'])} {prog} {clist(c_state(s) for s in c['states'])}"
            if k == "pred":
                return f"run_pred {c_pred(c['fun'])} {clist(c_state(s) for s in c['states'])}"
        except Exception:  # noqa: BLE001  (configuration the implementation rejects: nothing to replay)
            return "SL nil"
        return "SL nil"

    def decode(self, c, sx):
        k = c["kind"]
        if sx == [] and k not in ("pred", "postsel"):
            return "unbuildable"
        st = lambda l: [list(x) for x in l]  # noqa: E731
        cnt = lambda l: [[list(s), n] for s, n in l]  # noqa: E731
        if k == "getout":
            return decode_res(sx, lambda p: {"outs": st(p[0]), "used": p[1]})
        if k in ("sample", "qs_sample"):
            return decode_res(sx, lambda p: {"outs": st(p[0]), "used": p[1]})
        if k == "n_inputs":
            return decode_res(sx, lambda p: {"counts": cnt(p[0]), "used": p[1]})
        if k == "n_outputs":
            return decode_res(sx, lambda p: {"counts": cnt(p)})
        if k == "qs_n_outputs":
            sup = decode_res(sx[0], bool)
            r = decode_res(sx[1], cnt)
            if "err" in sup:
                return sup
            if "err" in r:
                return r
            return {"ok": {"supported": sup["ok"], "counts": r["ok"]}}
        if k == "postsel":
            return {"outs": ["ok" if o == 0 else core.ERR_CODES.get(o, str(o)) for o in sx[0]],
                    "rules": [[list(r[0]), list(r[1])] for r in sx[1]], "modes": list(sx[2]),
                    "vals": [decode_res(v, bool) for v in sx[3]]}
        if k == "pred":
            return [decode_res(v, bool) for v in sx]
        return None

    def compare(self, c, a, b):
        k = c["kind"]
        if k in ("malformed", "stat"):
            return None
        if k == "getout":
            a = {"ok": a}
        if isinstance(a, dict):
            a = copy.deepcopy(a)
            for kk in ("_again", "_same", "_noseed"):
                a.pop(kk, None)
                if isinstance(a.get("ok"), dict):
                    a["ok"].pop(kk, None)
        if b == "unbuildable":
            return None if (isinstance(a, dict) and "err" in a) else "model side could not build the configuration"
        return core.approx_equal(a, b)

    # ------------------------------------------------------------------ oracle
    def oracle(self, c, obs):
        k = c["kind"]
        if k == "getout":
            det, s = c["det"], c["state"]
            law = ref_kernel(tuple(s), det)
            for o in obs["outs"]:
                if law.get(tuple(o), 0.0) <= 0:
                    return f"_get_output({s}) returned {o}, which has probability 0 under the detector model {det}"
            return None
        if k in ("n_inputs", "n_outputs"):
            return self._oracle_n(c, obs)
        if k == "sample":
            return self._oracle_sample(c, obs)
        if k in ("qs_sample", "qs_n_outputs"):
            return self._oracle_qs(c, obs)
        if k == "postsel":
            return self._oracle_postsel(c, obs)
        if k == "pred":
            for st, v in zip(c["states"], obs):
                try:
                    exp = {"ok": bool(ref_pred(c["fun"], st))}
                except IndexError:
                    exp = {"err": "IndexError"}
                if v != exp:
                    return f"PostSelectionFunction.validate({st}) = {v}, expected {exp}"
            return None
        if k == "malformed":
            return self._oracle_malformed(c, obs)
        if k == "stat":
            return self._oracle_stat(c, obs)
        return None

    def _expected_error(self, c, items, her):
        """errors the documented behaviour demands before any sampling."""
        det = c["det"]
        if c["kind"] == "n_outputs" and det["pdark"] != 0:
            return "SamplerError"
        if her and max(n for _, n in her) > 1 and not det["pc"]:
            return "SamplerError"
        return None

    def _oracle_n(self, c, obs):
        k = c["kind"]
        items, her, nm, im = sampler_info(cfg_of(c))
        exp_err = self._expected_error(c, items, her)
        if "err" in obs:
            if exp_err == obs["err"]:
                return None
            if obs["err"] == "IndexError" and _psel_can_raise(c["psel"], im):
                return None
            if obs["err"] == "SamplerError" and k == "n_outputs" and not ref_law_outputs_safe(items, c, her):
                return None
            if obs["err"] == "ValueError" and k == "n_inputs" and abs(sum(p for _, p in items) - 1) > 0.01:
                return None
            return f"{k} raised {obs['err']} on a valid configuration"
        if exp_err:
            return f"{k} returned a result where {exp_err} is required"
        counts = obs["ok"]["counts"]
        f = self._valid_counts(c, counts, items, her, im, k)
        if f:
            return f
        again = obs.get("_again")
        if again is not None and again != {"ok": counts}:
            return f"{k}: the same seed gave a different result on a fresh sampler"
        same = obs.get("_same")
        if same is not None and same != {"ok": counts}:
            return f"{k}: the same seed gave a different result when the call was repeated on the same sampler"
        ns = obs.get("_noseed")
        if ns is not None:
            if "ok" not in ns:
                return f"{k} without a seed raised {ns['err']} where the seeded call succeeds"
            f = self._valid_counts(c, ns["ok"], items, her, im, k + " (no seed)")
            if f:
                return f
        return None

    def _valid_counts(self, c, counts, items, her, im, k):
        total = sum(n for _, n in counts)
        if len({tuple(s) for s, _ in counts}) != len(counts):
            return f"{k}: duplicate states in the result"
        if c["kind"] == "n_outputs" and total != c["N"]:
            return f"{k}: sample_N_outputs returned {total} samples, N = {c['N']}"
        if c["kind"] == "n_inputs" and total > c["N"]:
            return f"{k}: sample_N_inputs returned {total} samples from {c['N']} inputs"
        # what one detected full state can look like: support of the exact law
        det = c["det"] if c["kind"] == "n_inputs" else dict(eff=1.0, pdark=0.0, pc=c["det"]["pc"])
        law = ref_law_inputs(items, det, her, c["psel"], c["mind"])
        for s, n in counts:
            if n <= 0:
                return f"{k}: non-positive count"
            if len(s) != im:
                return f"{k}: returned state {s} has {len(s)} modes, heralded modes not removed (expected {im})"
            try:
                okps = ref_psel(c["psel"], tuple(s))
            except IndexError:
                okps = False
            if not okps:
                return f"{k}: returned state {s} violates the post-selection {c['psel']}"
            if sum(s) < c["mind"]:
                return f"{k}: returned state {s} has fewer than min_detection={c['mind']} photons"
            if law.get(tuple(s), 0.0) <= 0:
                return (f"{k}: returned state {s} is impossible: no detected output with the heralds {her} satisfied "
                        f"reduces to it")
        return None

    def _oracle_sample(self, c, obs):
        items, her, nm, im = sampler_info(cfg_of(c))
        if "err" in obs:
            return f"Sampler.sample() raised {obs['err']}"
        law = ref_detect(items, c["det"])
        for s in obs["ok"]["outs"]:
            if law.get(tuple(s), 0.0) <= 0:
                return f"Sampler.sample() returned {s}, impossible under the detector model"
        if her:
            hm = {m for m, _ in her}
            for s in obs["ok"]["outs"]:
                viol = any(s[m] != n for m, n in her) if len(s) == nm else None
                if len(s) != im:
                    return (f"{N7_PREFIX}: returned {s} with {len(s)} modes for a circuit with heralds {list(her)} "
                            f"(expected {im} modes, heralds checked" + (", and this state violates them)" if viol else ")"))
        return None

    def _oracle_qs(self, c, obs):
        k = c["kind"]
        try:
            items = quick_info(cfg_of(c), c["pc"], c["psel"])
        except Exception as e:  # noqa: BLE001
            # the sampler cannot be built (all outputs removed, predicate raises...) : then impl must have failed too
            return None if "err" in obs else f"QuickSampler worked in impl but not in oracle: {e}"
        if "err" in obs:
            return f"QuickSampler {k} raised {obs['err']}"
        im, ph = len(c["input"]), sum(c["input"])
        outs = obs["ok"]["outs"] if k == "qs_sample" else [s for s, _ in obs["ok"]["counts"]]
        keys = {s for s, _ in items}
        for s in outs:
            if len(s) != im:
                return f"QuickSampler returned {s}: heralded modes not removed"
            if sum(s) != ph:
                return f"QuickSampler returned {s}: photon number differs from the input's {ph}"
            if not c["pc"] and max(s) > 1:
                return f"QuickSampler (threshold detectors) returned {s}"
            if not ref_psel(c["psel"], tuple(s)):
                return f"QuickSampler returned {s}, violating the post-selection"
            if tuple(s) not in keys:
                return f"QuickSampler returned {s}, not in its distribution"
        if k == "qs_n_outputs":
            if sum(n for _, n in obs["ok"]["counts"]) != c["N"]:
                return "QuickSampler.sample_N_outputs did not return exactly N samples"
            if obs["ok"]["_again"] != obs["ok"]["counts"]:
                return "QuickSampler.sample_N_outputs: same seed, different result"
            if obs["ok"].get("_same", obs["ok"]["counts"]) != obs["ok"]["counts"]:
                return "QuickSampler.sample_N_outputs: same seed, different result when repeated on the same object"
            ns = obs["ok"].get("_noseed")
            if ns is not None:
                if sum(n for _, n in ns) != c["N"]:
                    return "QuickSampler.sample_N_outputs (no seed) did not return exactly N samples"
                for s_, _ in ns:
                    if (len(s_) != im or sum(s_) != ph or (not c["pc"] and max(s_, default=0) > 1) or not ref_psel(c["psel"], tuple(s_))
                            or tuple(s_) not in keys):
                        return f"QuickSampler.sample_N_outputs (no seed) returned {s_}, not an allowed output"
        return None

    def _oracle_postsel(self, c, obs):
        used, rules, outs = set(), [], []
        for ms, ns, _ in c["prog"]:
            if any(m < 0 for m in ms) or any(n < 0 for n in ns) or (not c["multi"] and any(m in used for m in ms)):
                outs.append("ValueError")
                continue
            outs.append("ok")
            rules.append([list(ms), list(ns)])
            used |= set(ms)
        if obs["outs"] != outs:
            return f"PostSelection.add outcomes {obs['outs']}, expected {outs}"
        if obs["rules"] != rules or obs["modes"] != sorted(used):
            return f"PostSelection rules/modes {obs['rules']} {obs['modes']}, expected {rules} {sorted(used)}"
        for st, v in zip(c["states"], obs["vals"]):
            try:
                exp = {"ok": all(sum(st[m] for m in ms) in ns for ms, ns in rules)}
            except IndexError:
                exp = {"err": "IndexError"}
            if v != exp:
                return f"PostSelection.validate({st}) = {v}, expected {exp}"
        return None

    def _oracle_malformed(self, c, obs):
        want = {
            "min_detection_float": ["TypeError"] * 2, "min_detection_bool": ["TypeError"] * 2,
            "post_select_int": ["TypeError"] * 3, "psf_not_function": ["TypeError"],
            "eff_range": ["ValueError"] * 2, "eff_bool": ["TypeError"] * 2,
            "pdark_range": ["ValueError", "ValueError", "TypeError"], "pc_int": ["TypeError"],
            "seed_float": ["TypeError"] * 2, "seed_str": ["TypeError"] * 2,
            "ps_add_float": ["ValueError", "ValueError", None], "ps_add_negative": ["ValueError"] * 2,
        }[c["what"]]
        for w, o in zip(want, obs):
            if w is None:
                if "err" in o:
                    return f"malformed/{c['what']}: integral float rejected: {o}"
            elif o != {"err": w}:
                return f"malformed/{c['what']}: got {o}, expected {w}"
        return None

    def _oracle_stat(self, c, obs):
        sub, n = c["sub"], c["n"]
        if "err" in obs:
            if sub == "n_outputs" and obs["err"] == "SamplerError":
                items, her, _, _ = sampler_info(cfg_of(c))
                if not ref_law_outputs(items, c["det"]["pc"], her, c["psel"], c["mind"]):
                    return None     # nothing can be accepted: the documented error
            return f"TEST {sub}: implementation raised {obs['err']}: {obs.get('msg')}"
        if not obs["same"]:
            return f"TEST {sub}: same seed twice gave different results"
        counts = {tuple(s): v for s, v in obs["counts"]}
        if sub == "getout":
            law = ref_kernel(tuple(c["state"]), c["det"])
            if sum(counts.values()) != n:
                return "TEST getout: wrong number of samples"
            return stat_cells(counts, n, law, f"Detector._get_output {c['det']} on {c['state']}")
        items, her, nm, im = sampler_info(cfg_of(c))
        if sub == "n_inputs":
            law = ref_law_inputs(items, c["det"], her, c["psel"], c["mind"])
            acc = sum(law.values())
            r = stat_cells({"accepted": sum(counts.values())}, n, {"accepted": acc}, "sample_N_inputs accepted fraction")
            return r or stat_cells(counts, n, law, "sample_N_inputs")
        if sub == "n_outputs":
            law = ref_law_outputs(items, c["det"]["pc"], her, c["psel"], c["mind"])
            if sum(counts.values()) != n:
                return "TEST sample_N_outputs: did not return N samples"
            return stat_cells(counts, n, law, "sample_N_outputs")
        if sub == "sample":
            law = ref_detect(items, c["det"])
            return stat_cells(counts, n, law, "Sampler.sample")
        if sub in ("qs_n_outputs", "qs_sample"):
            # exact law of the quick sampler = the sampler's law conditioned on photon number conservation,
            # threshold detectors keeping only collision-free states, post-selection (independent route:
            # through Sampler.probability_distribution of the same circuit)
            ph = sum(c["input"])
            law = defaultdict(float)
            for full, p in items:
                if any(full[m] != k_ for m, k_ in her):
                    continue
                hm = {m for m, _ in her}
                red = tuple(v for i, v in enumerate(full) if i not in hm)
                if sum(red) != ph or (not c["pc"] and max(red) != 1) or not ref_psel(c["psel"], red):
                    continue
                law[red] += p
            tot = sum(law.values())
            law = {k_: v / tot for k_, v in law.items()}
            return stat_cells(counts, n, law, "QuickSampler." + ("sample_N_outputs" if sub == "qs_n_outputs" else "sample"))
        return None

    # -------------------------------------------------------------- bookkeeping
    def nontrivial(self, c, obs):
        k = c["kind"]
        if k in ("getout",):
            d = c["det"]
            return not (d["eff"] == 1 and d["pdark"] == 0 and d["pc"]) and sum(c["state"]) > 0
        if k in ("n_inputs", "n_outputs", "sample"):
            d = c["det"]
            imperfect = not (d["eff"] == 1 and d["pdark"] == 0 and d["pc"])
            n = c.get("N", c.get("M", 0))
            return n > 1 and (imperfect or bool(c.get("heralds")) or c.get("psel") is not None or c.get("mind", 0) > 0)
        if k in ("qs_sample", "qs_n_outputs"):
            return c.get("N", c.get("M", 0)) > 1
        if k == "postsel":
            return len(c["prog"]) >= 1
        return True

    def stats(self, cases, recs):
        kinds = Counter(c["kind"] + ("/" + c["sub"] if c["kind"] == "stat" else "") for c in cases)
        outcome = Counter()
        draws = 0
        dets = Counter()
        for r in recs:
            c, o = r["case"], r["impl"]
            if isinstance(o, dict) and "err" in o:
                outcome[c["kind"] + ":" + o["err"]] += 1
            elif c["kind"] in ("n_inputs", "n_outputs", "sample", "qs_sample", "qs_n_outputs", "getout"):
                outcome[c["kind"] + ":ok"] += 1
                draws += c.get("N", c.get("M", c.get("reps", 0)))
            if "det" in c:
                d = c["det"]
                dets[("eff<1" if d["eff"] < 1 else "eff=1") + (",dark" if d["pdark"] > 0 else "") + (",pnr" if d["pc"] else ",thr")] += 1
        acc = Counter()
        for r in recs:
            c, o = r["case"], r["impl"]
            if c["kind"] == "n_inputs" and isinstance(o, dict) and "ok" in o and c["N"] > 1:
                kept = sum(n for _, n in o["ok"]["counts"])
                acc["none kept" if kept == 0 else "all kept" if kept == c["N"] else "some dropped"] += 1
        her = Counter(len(c.get("heralds", [])) for c in cases if "heralds" in c)
        return {"kinds": dict(kinds), "outcomes": dict(outcome), "replayed_draws": draws,
                "n_inputs_acceptance": dict(acc), "detector_settings": dict(dets), "n_heralds": {str(k): v for k, v in her.items()},
                "stat_test": {"fwer": FWER, "max_cells": MAX_CELLS, "threshold_n_KL": LOG_2_OVER_ALPHA}}

    def signature(self, c, rec):
        if (c.get("kind") == "sample" and c.get("heralds") and not rec.get("diff")
                and isinstance(rec.get("oracle"), str) and rec["oracle"].startswith(N7_PREFIX)):
            return N7_SIG
        return None

    def shrink(self, c):
        for key in ("N", "M", "reps"):
            if key in c and c[key] > 1:
                d = copy.deepcopy(c)
                d[key] = c[key] // 2
                yield d
        if c.get("psel") is not None:
            d = copy.deepcopy(c)
            d["psel"] = None
            yield d
        if c.get("mind"):
            d = copy.deepcopy(c)
            d["mind"] = 0
            yield d
        if c.get("heralds"):
            d = copy.deepcopy(c)
            h = d["heralds"].pop()
            d["input"] = d["input"] + [0]
            yield d
        if "source" in c:
            d = copy.deepcopy(c)
            del d["source"]
            yield d


def ref_new_dist(items, pc, her, ps, mind):
    """the probabilities of the filtered distribution sample_N_outputs draws from, in dict order
    (independent re-computation used only to keep draws away from CDF boundaries)."""
    nd = {}
    hm = {m for m, _ in her}
    for s, p in items:
        s1 = s if pc else tuple(min(i, 1) for i in s)
        if any(s1[m] != n for m, n in her):
            continue
        red = tuple(v for i, v in enumerate(s1) if i not in hm)
        try:
            if sum(red) >= mind and ref_psel(ps, red):
                nd[red] = nd.get(red, 0.0) + p
        except IndexError:
            return []
    return list(nd.values())


def ref_law_outputs_safe(items, c, her):
    try:
        return ref_law_outputs(items, c["det"]["pc"], her, c["psel"], c["mind"])
    except IndexError:
        return {}


def _psel_can_raise(ps, nm):
    if ps is None:
        return False
    if "rules" in ps:
        return any(m >= nm for ms, _ in ps["rules"] for m in ms)

    def walk(a):
        if a[0] in ("modeeq", "modege"):
            return a[1] >= nm
        if a[0] == "sumeq":
            return any(m >= nm for m in a[1])
        if a[0] == "not":
            return walk(a[1])
        if a[0] in ("and", "or"):
            return walk(a[1]) or walk(a[2])
        return False
    return walk(ps["fun"])


PROP = C07()

if __name__ == "__main__":
    sys.exit(core.main(PROP))
