"""C16 — Process tomography and gate fidelity agree with the library's own references.

Correspondence: LIProcessTomography.process(), choi_from_unitary, GateFidelity.process(),
the data vector / gradient / TP projection / A matrix / forward model of
MLETomographyAlgorithm, the order and input states of the requested experiments and the
constant tables, each versus the Coq model (Model/Tomo.v) on the same counts.

Oracle = the property as written: LI == choi_from_unitary(V) with fidelity one; MLE
positive, trace preserving, fidelity >= 0.99 against it; gate fidelity
(|tr(U^+ V)|^2 + d)/(d(d+1)), one for U = V.  V is computed separately from Simulator
amplitudes of the base circuit.

History: on the pinned tree LI/MLE returned the Choi matrix of V^T (F9) and the MLE gradient was the
conjugate of the Hilbert-Schmidt gradient (F8); both are repaired in /repo (00f76fe, daa21e7) and listed as
`fixed:` in KNOWN_FINDINGS.txt.  No known-finding signature is left: signature() returns None, any
mismatch for a non-symmetric or complex V is a VIOLATION.  The model keeps the old definitions as
`*_pinned` only for the regression theorems of Properties/C16.v.
"""
from __future__ import annotations

import copy
import itertools
import os
import random
import sys
import warnings
from fractions import Fraction

import numpy as np

import core
from core import cb, clist, cn, cz, decode_res

import lightworks as lw
from lightworks import State, qubit
from lightworks.emulator import Simulator
from lightworks.tomography import (
    GateFidelity,
    LIProcessTomography,
    MLEProcessTomography,
    choi_from_unitary,
    process_fidelity,
)
import lightworks.tomography.process_tomography as _ptmod
import lightworks.tomography.process_tomography_mle as _mlemod
import lightworks.tomography.mappings as _maps
import lightworks.tomography.utils as _tutils

import c15
from c15 import PCTOR, PNAMES, SQ2, apply_gates, build_base, cmat, dual_rail, renorm, snapshot, snap_equal
from lightworks.emulator.results import SamplingResult

SCALE = 10**15
INAMES = ["X+", "X-", "Y+", "Y-", "Z+", "Z-"]
LI_INPUTS = ["Z+", "Z-", "X+", "Y+"]
MLE_INPUTS = ["X+", "X-", "Y+", "Y-", "Z+", "Z-"]
_H = np.array([[1, 1], [1, -1]], dtype=complex) / SQ2
_S = np.diag([1, 1j])
PREP = {"X+": ([1, 0], _H), "X-": ([0, 1], _H), "Y+": ([1, 0], _S @ _H), "Y-": ([0, 1], _S @ _H),
        "Z+": ([1, 0], np.eye(2, dtype=complex)), "Z-": ([0, 1], np.eye(2, dtype=complex))}
MEAS = {"X": _H, "Y": _H @ np.diag([1, -1j]), "Z": np.eye(2, dtype=complex)}
CLASSES = {"li": LIProcessTomography, "mle": MLEProcessTomography, "gf": GateFidelity}


def qubit_unitary(circ, n):
    """Dual-rail action of the circuit, from Simulator amplitudes; None if not proportional to a unitary."""
    states = [State(dual_rail(z, n)) for z in range(2**n)]
    a = np.array(Simulator(circ).simulate(states, states).array).T      # a[out, in]
    g = a.conj().T @ a
    k2 = np.trace(g).real / 2**n
    if k2 < 1e-9 or np.abs(g / k2 - np.eye(2**n)).max() > 1e-9:
        return None
    return a / np.sqrt(k2)


def frac_mat(m):
    """complex matrix -> exact rationals of the float entries, JSON-able."""
    out = []
    for row in np.array(m):
        r = []
        for x in row:
            a, b = Fraction(float(np.real(x))), Fraction(float(np.imag(x)))
            r.append([a.numerator, a.denominator, b.numerator, b.denominator])
        out.append(r)
    return out


def coq_mat(fm):
    return clist(clist(f"({cz(e[0])}, {cz(e[1])}, ({cz(e[2])}, {cz(e[3])}))" for e in row) for row in fm)


def rand_unitary(rng, d):
    a = np.array([[complex(rng.gauss(0, 1), rng.gauss(0, 1)) for _ in range(d)] for _ in range(d)])
    q, r = np.linalg.qr(a)
    return q * (np.diag(r) / np.abs(np.diag(r)))


def embed(n_full, vis, blocks):
    m = np.eye(n_full, dtype=complex)
    for i, b in enumerate(blocks):
        x, y = vis[2 * i], vis[2 * i + 1]
        m[np.ix_([x, y], [x, y])] = b
    return m


def _shared_tables():
    """fingerprint of the module-level circuits every tomography object adds to its experiments"""
    out = {}
    for nm, (st, g) in _maps.INPUT_MAPPING.items():
        out["in:" + nm] = (list(st), g.n_modes, np.array(g.U_full).tobytes())
    for nm, g in _maps.MEASUREMENT_MAPPING.items():
        out["meas:" + nm] = (g.n_modes, np.array(g.U_full).tobytes())
    return out


class _Patch:
    """record/permute the list(set(...)) of required settings; capture the call of pgdb"""

    def __init__(self, perm_seed):
        self.perm_seed = perm_seed
        self.req = None
        self.pgdb = None
        self.orig = getattr(_ptmod, "_get_required_tomo_measurements", None)
        self.orig_pgdb = getattr(_mlemod.MLETomographyAlgorithm, "pgdb", None)

    def __enter__(self):
        me = self
        if self.orig is not None:
            orig = self.orig

            def wrapper(*a, **k):
                req, mapping = orig(*a, **k)
                if me.perm_seed is not None:
                    random.Random(me.perm_seed).shuffle(req)
                me.req = list(req)
                return req, mapping

            _ptmod._get_required_tomo_measurements = wrapper
        if self.orig_pgdb is not None:
            opg = self.orig_pgdb

            def pg(alg, data, *a, **k):
                me.pgdb = (alg, dict(data))
                return opg(alg, data, *a, **k)

            _mlemod.MLETomographyAlgorithm.pgdb = pg
        return self

    def __exit__(self, *exc):
        if self.orig is not None:
            _ptmod._get_required_tomo_measurements = self.orig
        if self.orig_pgdb is not None:
            _mlemod.MLETomographyAlgorithm.pgdb = self.orig_pgdb
        return False


def cptp_measures(choi, n):
    d = 2**n
    h = (choi + choi.conj().T) / 2
    herm = float(np.abs(choi - choi.conj().T).max())
    mineig = float(np.linalg.eigvalsh(h).min())
    # trace preservation in the output (x) input ordering of choi_from_unitary: trace over the OUTPUT factor
    pt = np.einsum("kikj->ij", choi.reshape(d, d, d, d))
    return herm, mineig, float(np.abs(pt - np.eye(d)).max())


class C16:
    ID = "C16"
    RULE = ("one- and two-qubit circuits from the qubit gate library (H,X,Y,Z,S,T,SX,adjoints, Rx/Ry/Rz/P with random angles, "
            "post-selected/heralded CZ and CNOT in both orientations, SWAP), each used for LI tomography, MLE tomography and gate "
            "fidelity (targets: V itself, other gate products, Haar-random unitaries) with noiseless integer counts (total 1e15) "
            "computed from Simulator amplitudes of every requested circuit, order of the required settings natural or permuted; "
            "random dyadic matrices/data for the transcribed MLE pieces (A matrix, data vector, forward model with clipping, gradient, "
            "TP projection); malformed result lists; constructor validation. Counts as integers (equal or different totals per "
            "setting), relative frequencies or un-normalised probabilities, as dict or SamplingResult; experiment_args through the "
            "constructor or the attribute; the experiment as function, bound method or assigned through the setter; two process() "
            "calls on one object (first call fine / raising / short / invalid data) with the base circuit extended in place or a "
            "live Parameter changed in between; the callback edits every circuit it receives; the shared INPUT/MEASUREMENT_MAPPING "
            "circuits must stay unchanged. Non-trivial = a full tomography run or a non-constant "
            "matrix input; distinct = distinct case JSON")
    TRUSTED = ["np.linalg.pinv / solve are oracles (contract: the unique solution of an invertible system); the model run realises them by an "
               "exact closed-form / Gauss-Jordan solve and the correspondence compares with numpy",
               "scipy sqrtm (process_fidelity), eigh (_cp_proj), log (_cost) and the pgdb / _cptp_proj iterations are NOT modelled: MLE positivity, "
               "trace preservation and the >= 0.99 fidelity are oracle tests only (the oracle recomputes the fidelity against the pure reference without sqrtm)",
               "the photonic level (dual-rail frequencies = Born probabilities of V rho V^+) is exercised by the oracle, not proved",
               "theorems (Properties/C16.v): LI = choi_from_unitary(V) and the gate-fidelity formula for every n >= 1 and every V; MLE forward model, "
               "linearity, gradient identity, Hermitian rows, TP projection for every n; *_pinned regression theorems for the repaired findings F8/F9"]
    ASSUMPTIONS = ["the experiment callback returns for every (circuit, input) the frequencies of the valid dual-rail outcomes (unit total)",
                   "V is the dual-rail action of the base circuit computed from Simulator amplitudes and normalised (post-selected gates succeed with a uniform probability)"]
    CHUNK = 2

    # ---------------------------------------------------------------- generate
    def generate(self, rng, tier):
        quick = tier == "quick"
        cases = [dict(kind="static")]

        def trio(n, gates, kinds=("li", "mle", "gf"), perm=False):
            for kd in kinds:
                c = dict(kind=kd, n=n, gates=gates, perm=rng.randrange(10**6) if perm else None)
                c["twice"] = len(gates) >= 2 or (len(cases) % 4 == 1)
                if kd == "gf":
                    c["target"] = "same"
                cases.append(c)

        one = [[["H", 0]], [["X", 0]], [["Z", 0]], [["Y", 0]], [["S", 0]], [["SX", 0]], [["T", 0]],
               [["Ry", 0, 0.9]], [["H", 0], ["S", 0]], [["Rx", 0, 1.3]], [["S", 0], ["H", 0], ["T", 0]]]
        for k, g in enumerate(one):
            trio(1, g, perm=(k % 3 == 1))
        n1 = 3 if quick else 60
        for _ in range(n1):
            gates = []
            for _ in range(rng.randint(1, 4)):
                if rng.random() < 0.5:
                    gates.append([rng.choice(["H", "S", "T", "SX", "Sadj", "Tadj", "X", "Y", "Z"]), 0])
                else:
                    gates.append([rng.choice(["Rx", "Ry", "Rz", "P"]), 0, round(rng.uniform(-3.1, 3.1), 6)])
            trio(1, gates, perm=rng.random() < 0.4)
        # gate fidelity against other targets
        for _ in range(6 if quick else 80):
            g = rng.choice(one)
            tgt = rng.choice(["rand", "gates", "rand"])
            c = dict(kind="gf", n=1, gates=g, perm=None, target=tgt, tseed=rng.randrange(10**9), twice=(rng.random() < 0.4))
            if tgt == "gates":
                c["tgates"] = rng.choice(one)
            cases.append(c)
        # two qubits
        trio(2, [["CNOT", 0, 1]])
        trio(2, [["S", 0], ["CNOT", 0, 0], ["Ry", 1, 0.8]], kinds=("li", "gf"))
        cases.append(dict(kind="gf", n=2, gates=[["CZ", 0]], perm=rng.randrange(10**6), target="rand", tseed=rng.randrange(10**9)))
        if not quick:
            trio(2, [["CZ", 0]])
            trio(2, [["H", 0], ["CNOT", 0, 1]], perm=True)
            trio(2, [["SX", 0], ["CZ", 0], ["T", 1]])
            trio(2, [["SWAP", 0, 1], ["S", 0]], kinds=("li", "gf"))
            trio(2, [["CNOT_H", 0, 1]], kinds=("li", "gf"))
            for _ in range(5):
                gates = c15.PROP._rand_gates(rng, 2, allow_heralded=False)
                trio(2, gates, kinds=("li", "gf"), perm=rng.random() < 0.5)
                cases.append(dict(kind="gf", n=2, gates=gates, perm=None, target="rand", tseed=rng.randrange(10**9)))
        # transcribed MLE pieces
        for k in range(6 if quick else 60):
            d = 4
            base = [[(0.5 if i == j else 0.0) for j in range(d)] for i in range(d)]
            kindc = k % 3
            ch = [[[0, 1, 0, 1] for _ in range(d)] for _ in range(d)]
            for i in range(d):
                for j in range(d):
                    amp = 8 if kindc < 2 else 96
                    re = Fraction(rng.randint(-amp, amp), 64) + Fraction(base[i][j]).limit_denominator(2)
                    im = Fraction(rng.randint(-amp, amp), 64) if i != j or kindc == 2 else Fraction(0)
                    ch[i][j] = [re.numerator, re.denominator, im.numerator, im.denominator]
            if kindc == 0:        # Hermitian
                for i in range(d):
                    for j in range(i):
                        a = ch[j][i]
                        ch[i][j] = [a[0], a[1], -a[2], a[3]]
            dat = [[rng.randint(-60, 60), 64] for _ in range(18)]
            cases.append(dict(kind="mleparts", n=1, choi=ch, dat=dat))
        for k in range(2 if quick else 20):
            d = 16
            ch = [[[rng.randint(-64, 64), 64, rng.randint(-64, 64), 64] for _ in range(d)] for _ in range(d)]
            cases.append(dict(kind="tp", n=2, choi=ch))
        # a trace-preserving but NOT unital channel must be a fixed point of the TP projection (oracle only)
        for _ in range(6 if quick else 60):
            cases.append(dict(kind="tpfix", seed=rng.randrange(10**9)))
        # malformed result lists
        for k in range(4 if quick else 30):
            cases.append(dict(kind=rng.choice(["li", "gf", "mle"]), n=1, gates=[["H", 0]], perm=None, target="same",
                              bad=rng.choice(["short", "long", "invalid", "empty", "zero"]), bseed=rng.randrange(10**6)))
        # API forms and histories (see _impl_tomo): normalisation of the returned counts, optional experiment_args and
        # how they are set, how the experiment function is given, results as SamplingResult objects,
        # what the first of two process() calls does and how the base circuit is edited between the two calls
        for c in cases:
            if c["kind"] in ("li", "mle", "gf") and not c.get("bad"):
                c["norm"] = rng.choice(["int", "int", "float", "sub", "varint"])
                c["args"] = rng.choice([None, None, [], [7], ["tag", 3]])
                c["args_form"] = rng.choice(["ctor", "attr"])
                c["exp_form"] = rng.choice(["ctor", "ctor", "setter", "method"])
                c["as_result"] = rng.random() < 0.25
                if c.get("twice"):
                    c["first"] = rng.choice(["ok", "ok", "raise", "short", "invalid"])
                    c["edit"] = rng.choice(["add", "param"])
                    c["pq"] = rng.randrange(c["n"])
                    c["th"] = [round(rng.uniform(-3, 3), 6), round(rng.uniform(-3, 3), 6)]
        for cls, nq, base, ex in itertools.product(["li", "mle", "gf"], [1, 2, True, 1.5, None], ["c2", "c4", "c5", "cz_h", "list"],
                                                   ["fn", "none", "builtin"]):
            if rng.random() < (0.8 if quick else 0.3):
                continue
            cases.append(dict(kind="init", cls=cls, nq=nq, base=base, ex=ex))
        return cases

    # -------------------------------------------------------------------- impl
    def _target(self, c, v):
        if c.get("target", "same") == "same":
            return v
        if c["target"] == "gates":
            return qubit_unitary(build_base(c["n"], c["tgates"]), c["n"])
        return rand_unitary(random.Random(c["tseed"]), 2 ** c["n"])

    def impl(self, c):
        k = c["kind"]
        if k == "static":
            inp = [[list(_maps.INPUT_MAPPING[g][0]), cmat(_maps.INPUT_MAPPING[g][1].U_full)] for g in INAMES]
            rho = [cmat(_maps.RHO_MAPPING[g]) for g in INAMES]
            enc_i = lambda s: [INAMES.index(x) for x in s.split(",")]
            enc_m = lambda s: [PNAMES.index(x) for x in s.split(",")]
            li2 = [enc_i(s) for s in _tutils._combine_all(list(_ptmod.TOMO_INPUTS), 2)]
            mle1 = [enc_i(s) for s in _tutils._combine_all(list(_mlemod.TOMO_INPUTS), 1)]
            mb2 = [enc_m(s) for s in _tutils._get_tomo_measurements(2, remove_trivial=True)]
            circs = []
            pt = LIProcessTomography(2, lw.Circuit(4), lambda a, b: [])
            for i_op, o_op in (("X+,Y-", "Y,X"), ("Z-,Y+", "Z,Y")):
                circ, st = pt._create_circuit_and_input(i_op, o_op)
                circs.append(cmat(circ.U_full))
            return {"keys": [list(_maps.INPUT_MAPPING.keys()), list(_maps.RHO_MAPPING.keys()), list(_ptmod.TOMO_INPUTS),
                             list(_mlemod.TOMO_INPUTS)],
                    "tables": [inp, rho, li2, mle1, mb2, circs]}
        if k == "init":
            base = {"c2": lambda: lw.Circuit(2), "c4": lambda: lw.Circuit(4), "c5": lambda: lw.Circuit(5),
                    "cz_h": lambda: qubit.CZ_Heralded(), "list": lambda: [1, 2, 3]}[c["base"]]()

            def fn(circuits, inputs):
                return []
            ex = {"fn": fn, "none": None, "builtin": len}[c["ex"]]
            try:
                CLASSES[c["cls"]](c["nq"], base, ex)
                return {"res": {"ok": []}}
            except Exception as e:  # noqa: BLE001
                return {"res": {"err": type(e).__name__}}
        if k == "mleparts":
            n = c["n"]
            alg = _mlemod.MLETomographyAlgorithm(n)
            ch = np.array([[complex(Fraction(e[0], e[1]), Fraction(e[2], e[3])) for e in row] for row in c["choi"]])
            keys = [(i, m) for i in alg._input_basis for m in alg._meas_basis]
            data = {kk: v[0] / v[1] for kk, v in zip(keys, c["dat"])}
            nv = alg._n_vec_from_data(data)
            cv = lambda v: [[float(np.real(x)), float(np.imag(x))] for x in v]
            return {"parts": [[cv(r) for r in alg._a_matrix], {"ok": cv(nv)}, cv(alg._p_vec(ch)),
                              {"ok": cmat(alg._gradient(ch, nv))}, cmat(alg._tp_proj(ch))]}
        if k == "tpfix":
            r = random.Random(c["seed"])
            g = r.uniform(0.1, 0.9)
            th, ph = r.uniform(0, 3.1), r.uniform(0, 6.2)
            u = np.array([[np.cos(th), -np.exp(1j * ph) * np.sin(th)], [np.exp(-1j * ph) * np.sin(th), np.cos(th)]])
            k0 = u @ np.array([[1, 0], [0, np.sqrt(1 - g)]])
            k1 = u @ np.array([[0, np.sqrt(g)], [0, 0]])
            ch = choi_from_unitary(k0) + choi_from_unitary(k1)       # amplitude damping followed by a unitary
            alg = _mlemod.MLETomographyAlgorithm(1)
            moved = float(np.abs(alg._tp_proj(ch) - ch).max())
            tr_out = float(np.abs(np.einsum("kikj->ij", ch.reshape(2, 2, 2, 2)) - np.eye(2)).max())
            return {"moved": moved, "tr_out": tr_out}
        if k == "tp":
            alg = _mlemod.MLETomographyAlgorithm(1)
            ch = np.array([[complex(Fraction(e[0], e[1]), Fraction(e[2], e[3])) for e in row] for row in c["choi"]])
            return {"tp": cmat(alg._tp_proj(ch))}
        return self._impl_tomo(c)

    def _impl_tomo(self, c):
        k, n = c["kind"], c["n"]
        # twice: the tomography object first processes a PREFIX of the base circuit; the base circuit is then
        # extended in place and process() is called again - the second result must describe the circuit as it
        # is then (no measurement data, circuits or settings may survive from the first call)
        twice = bool(c.get("twice")) and len(c["gates"]) >= 1 and not c.get("bad") and (k != "mle" or n == 1)
        if not c.get("bad") and qubit_unitary(build_base(n, c["gates"]), n) is None:
            # e.g. two post-selected gates in sequence on the same qubits: the circuit does not implement a unitary
            # on the dual-rail basis, which is outside what the property quantifies over
            c["_skip"] = True
            return {"res": {"skip": "the base circuit does not implement a unitary on the dual-rail basis"},
                    "inputs": [], "circ_ok": True, "aux": {"problems": [], "V": None}}
        edit = c.get("edit", "add") if twice else None
        param = None
        if edit == "param":          # the base circuit holds a live Parameter whose value changes between the two calls
            base = build_base(n, c["gates"])
            param = lw.Parameter(c["th"][0])
            apply_gates(base, [["PSP", c["pq"], param]])
        else:
            base = build_base(n, c["gates"][:-1] if twice else c["gates"])
        before = snapshot(base)
        v = qubit_unitary(base, n)
        shared0 = _shared_tables()
        aux = {"problems": [], "V": cmat(v) if v is not None else None}
        received_inputs, returned, circ_ok = [], [], []
        outs = [dual_rail(z, n) for z in range(2**n)]
        rng = random.Random(c.get("bseed", 1))
        her = {kk for kk, _ in before[4]}
        vis = [m for m in range(before[0]) if m not in her]
        inputs_all = [",".join(t) for t in itertools.product(MLE_INPUTS if k == "mle" else LI_INPUTS, repeat=n)]
        patch = _Patch(c.get("perm"))

        phase = {"first": twice}

        norm = c.get("norm", "int")
        seen_args = aux["args_seen"] = []

        def scribble(circuits):
            # the circuits handed to the callback are the callback's: editing them must not reach the base circuit,
            # the shared preparation / basis-change circuits or a later process() call
            for circ in circuits:
                try:
                    circ.ps(0, 0.9)
                    circ.bs(0)
                except Exception:  # noqa: BLE001
                    pass

        def experiment(circuits, inputs, *extra):
            seen_args.append(list(extra))
            if phase["first"]:
                how = c.get("first", "ok")
                res0 = []
                for circ, ins in zip(circuits, inputs):
                    amps0 = np.array(Simulator(circ).simulate(ins, [State(o) for o in outs]).array)[0]
                    p0 = np.abs(amps0) ** 2
                    res0.append({State(list(o)): float(x) for o, x in zip(outs, p0 / p0.sum())})
                scribble(circuits)
                if how == "raise":
                    raise RuntimeError("the experiment failed")
                if how == "short":
                    return res0[:-1]
                if how == "invalid":
                    res0[0] = {State([1, 1] * n): 5}
                return res0
            out = []
            req = patch.req or []
            for idx, (circ, ins) in enumerate(zip(circuits, inputs)):
                received_inputs.append(list(ins))
                ok = False
                if req and len(circuits) == len(req) * len(inputs_all):
                    i_lab, m_lab = inputs_all[idx // len(req)].split(","), req[idx % len(req)].split(",")
                    want = embed(before[0], vis, [MEAS[g] for g in m_lab]) @ before[2] @ embed(before[0], vis, [PREP[g][1] for g in i_lab])
                    try:
                        uk = np.array(circ.U_full)
                        ok = (uk.shape == want.shape and np.abs(uk - want).max() < 1e-9
                              and list(ins) == sum((PREP[g][0] for g in i_lab), [])
                              and sorted(circ.heralds["output"].items()) == before[4])
                    except Exception:  # noqa: BLE001
                        ok = False
                circ_ok.append(ok)
                amps = np.array(Simulator(circ).simulate(ins, [State(o) for o in outs]).array)[0]
                p = np.abs(amps) ** 2
                p = p / p.sum()
                items = renorm([(o, int(round(float(x) * SCALE))) for o, x in zip(outs, p)], norm, rng)
                out.append(items)
            bad = c.get("bad")
            if bad == "short":
                out = out[:-1]
            elif bad == "long":
                out = out + [out[0]]
            elif bad == "invalid":
                j = rng.randrange(len(out))
                out[j] = out[j] + [[[1, 1] * n, [3, 1]]]
            elif bad == "empty":
                out[rng.randrange(len(out))] = []
            elif bad == "zero":
                j = rng.randrange(len(out))
                out[j] = [[o, [0, 1]] for o, _ in out[j]]
            returned.extend(out)
            dicts = [{State(list(s)): (num if den == 1 else num / den) for s, (num, den) in items} for items in out]
            scribble(circuits)
            if c.get("as_result"):
                return [SamplingResult(d_, ins_) for d_, ins_ in zip(dicts, list(inputs) + [inputs[0]] * len(dicts))]
            return dicts

        class Lab:
            def run(self_, circuits, inputs, *extra):  # noqa: N805
                return experiment(circuits, inputs, *extra)

        def stale(circuits, inputs, *extra):  # noqa: ARG001
            raise AssertionError("the experiment function given to the constructor was called after it had been replaced")

        exp_form, args, args_form = c.get("exp_form", "ctor"), c.get("args"), c.get("args_form", "ctor")
        ex = Lab().run if exp_form == "method" else experiment
        res2 = None
        with patch, warnings.catch_warnings():
            warnings.simplefilter("ignore")
            kw = {"experiment_args": list(args)} if (args is not None and args_form == "ctor") else {}
            tomo = CLASSES[k](n, base, stale if exp_form == "setter" else ex, **kw)
            if exp_form == "setter":
                tomo.experiment = ex
            if args is not None and args_form == "attr":
                tomo.experiment_args = list(args)
            if twice:
                try:
                    tomo.process(*([np.identity(2**n)] if k == "gf" else []))
                except Exception:  # noqa: BLE001   (the first call's outcome is not what this case observes)
                    pass
                phase["first"] = False
                if edit == "param":
                    param.set(c["th"][1])
                else:
                    apply_gates(base, c["gates"][-1:])
                before = snapshot(base)
                v = qubit_unitary(base, n)
                aux["V"] = cmat(v) if v is not None else None
                her = {kk for kk, _ in before[4]}
                vis = [m for m in range(before[0]) if m not in her]
            try:
                if k == "gf":
                    u = self._target(c, v)
                    c["_U"] = frac_mat(u)
                    aux["U"] = cmat(u)
                    val = tomo.process(u)
                    res = {"ok": float(val)}
                    if tomo.fidelity != val and not (val != val and tomo.fidelity != tomo.fidelity):
                        aux["problems"].append(".fidelity is not the value the last process() call returned")
                else:
                    choi = np.array(tomo.process())
                    if not np.array_equal(np.array(tomo.choi), choi, equal_nan=True):
                        aux["problems"].append(".choi is not the matrix the last process() call returned")
                    if k == "li":
                        c["_V"] = frac_mat(v)
                        vq = np.array([[complex(Fraction(e[0], e[1]), Fraction(e[2], e[3])) for e in row] for row in c["_V"]])
                        res = {"ok": cmat(choi)}
                        res2 = cmat(choi_from_unitary(vq))
                        aux["fidelity"] = float(tomo.fidelity(choi_from_unitary(v)))
                    else:
                        aux["choi"] = cmat(choi)
                        aux["fidelity"] = float(tomo.fidelity(choi_from_unitary(v)))
                        aux["fidelity_T"] = float(tomo.fidelity(choi_from_unitary(v.T)))
                        aux["cptp"] = list(cptp_measures(choi, n))
                        alg, data = patch.pgdb
                        nv = alg._n_vec_from_data(data)
                        start = np.identity(4**n, dtype=complex) / 2**n
                        g0 = alg._gradient(start, nv)
                        aux["g0_imag"] = float(np.abs(np.imag(g0)).max())
                        aux["dist_start"] = float(np.abs(choi - start).max())
                        cv = lambda vv: [[float(np.real(x)), float(np.imag(x))] for x in vv]
                        res = {"ok": [cv(list(data.values())), cv(nv), cmat(g0)]}
            except Exception as e:  # noqa: BLE001
                if os.environ.get("C16_DEBUG"):
                    import traceback
                    traceback.print_exc()
                name = type(e).__name__
                res = {"err": name if name in core.ERR_CODES.values() else "OtherError"}
        if not snap_equal(before, snapshot(base)):
            aux["problems"].append("base circuit changed by process()")
        if _shared_tables() != shared0:
            aux["problems"].append("a shared circuit of INPUT_MAPPING / MEASUREMENT_MAPPING was modified by the tomography")
        c["_req"] = patch.req or []
        c["_results"] = returned
        obs = {"res": res, "inputs": received_inputs, "circ_ok": all(circ_ok) and len(circ_ok) > 0, "aux": aux}
        if res2 is not None:
            obs["ref"] = res2
        return obs

    # ------------------------------------------------------------------- model
    def coq_header(self):
        return ("From Coq Require Import ZArith List.\n"
                "From LW Require Import Base.Sx Model.Tomo Exec.RunC15 Exec.RunC16.\nImport ListNotations.\n")

    def coq_expr(self, c):
        k = c["kind"]
        if k == "static":
            return "run_c16_static"
        if k == "init":
            nq = c["nq"]
            is_int = isinstance(nq, int) and not isinstance(nq, bool)
            is_circ = c["base"] in ("c2", "c4", "c5", "cz_h")
            modes = {"c2": 2, "c4": 4, "c5": 5, "cz_h": 4}.get(c["base"], 0)
            return f"run_c15_init {cb(is_int)} {cb(is_circ)} {cz(nq if is_int else 0)} {cz(modes)} {cb(c['ex'] == 'fn')}"
        if k == "mleparts":
            return f"run_c16_mleparts {cn(c['n'])} {coq_mat(c['choi'])} {clist(f'({cz(a)}, {cz(b)})' for a, b in c['dat'])}"
        if k == "tp":
            return f"run_c16_tp {cn(c['n'])} {coq_mat(c['choi'])}"
        if c.get("_skip") or k == "tpfix":
            return "SL nil"
        req = c.get("_req") or []
        rq = clist(clist(PCTOR[x] for x in s.split(",")) for s in req)
        rs = clist(clist(f"({clist(cz(v) for v in s)}, ({cz(num)}, {cz(den)}))" for s, (num, den) in items)
                   for items in (c.get("_results") or []))
        n = cn(c["n"])
        exps = f"run_c16_exps {n} {cb(k == 'mle')} {rq}"
        if k == "li":
            main = f"run_c16_li {n} {rq} {rs} {coq_mat(c.get('_V') or [])}"
        elif k == "gf":
            main = f"SL (run_c16_gf {n} {rq} {rs} {coq_mat(c.get('_U') or [])} :: nil)"
        else:
            main = f"SL (run_c16_mle {n} {rq} {rs} :: nil)"
        return f"SL ({main} :: {exps} :: nil)"

    def decode(self, c, sx):
        k = c["kind"]
        if c.get("_skip") or k == "tpfix":
            return None
        un = core.unscale
        cm = lambda m: [[[un(e[0]), un(e[1])] for e in row] for row in m]
        cv = lambda v: [[un(e[0]), un(e[1])] for e in v]
        if k == "static":
            q2 = lambda e: [un(e[0]) + un(e[1]) * SQ2, un(e[2]) + un(e[3]) * SQ2]
            qm = lambda m: [[q2(e) for e in row] for row in m]
            inp = [[st, qm(g)] for st, g in sx[0]]
            circs = []
            for comps in sx[5]:
                u = np.eye(4, dtype=complex)
                for mode, g in comps:
                    blk = np.array([[complex(*q2(e)) for e in row] for row in g])
                    e4 = np.eye(4, dtype=complex)
                    e4[mode:mode + 2, mode:mode + 2] = blk
                    u = e4 @ u
                circs.append(cmat(u))
            return {"keys": [INAMES, INAMES, LI_INPUTS, MLE_INPUTS], "tables": [inp, [cm(m) for m in sx[1]], sx[2], sx[3], sx[4], circs]}
        if k == "init":
            return {"res": decode_res(sx)}
        if k == "mleparts":
            return {"parts": [[cv(r) for r in sx[0]], decode_res(sx[1], cv), cv(sx[2]), decode_res(sx[3], cm), cm(sx[4])]}
        if k == "tp":
            return {"tp": cm(sx)}
        main, exps = sx
        inputs = [e[2] for e in exps]
        if k == "li":
            obs = {"res": decode_res(main[0], cm), "ref": cm(main[1])}
        elif k == "gf":
            obs = {"res": decode_res(main[0], un)}
        else:
            obs = {"res": decode_res(main[0], lambda p: [cv(p[0]), cv(p[1]), cm(p[2])])}
        obs["inputs"] = inputs
        obs["circ_ok"] = True
        return obs

    def compare(self, c, a, b):
        k = c["kind"]
        if c.get("_skip") or k == "tpfix":
            return None
        if k in ("static", "init", "mleparts", "tp"):
            return core.approx_equal(a, b, tol=1e-9)
        a2 = {kk: v for kk, v in a.items() if kk != "aux"}
        if k == "li" and "ref" not in a2:
            b = {kk: v for kk, v in b.items() if kk != "ref"}
        return core.approx_equal(a2, b, tol=1e-9)

    # ------------------------------------------------------------------ oracle
    def oracle(self, c, obs):
        k = c["kind"]
        if k == "tpfix":
            if obs["tr_out"] > 1e-9:
                return None        # (cannot happen: the channel is built trace preserving)
            if not (obs["moved"] <= 1e-9):
                return (f"_tp_proj moves the Choi matrix of a trace-preserving channel by {obs['moved']:.3g}: it does not enforce "
                        f"trace preservation in the ordering of choi_from_unitary")
            return None
        if k in ("static", "mleparts", "tp"):
            return None
        if k == "init":
            nq = c["nq"]
            valid = (isinstance(nq, int) and not isinstance(nq, bool) and c["base"] in ("c2", "c4", "c5", "cz_h")
                     and {"c2": 2, "c4": 4, "c5": 5, "cz_h": 4}[c["base"]] == 2 * nq and c["ex"] == "fn")
            if valid != ("ok" in obs["res"]):
                return f"constructor accepted/rejected wrongly: {obs['res']}"
            return None
        aux, res, n = obs["aux"], obs["res"], c["n"]
        if aux["problems"]:
            return "; ".join(aux["problems"][:3])
        exp_args = list(c.get("args") or [])
        if "args_seen" in aux and not aux["args_seen"]:
            return "the experiment function in force (given to the constructor or assigned to .experiment afterwards) was never called"
        if any(a != exp_args for a in aux.get("args_seen", [])):
            return f"the experiment callback was called with extra arguments {aux['args_seen']}, expected {exp_args} in every call"
        if c.get("bad"):
            if c["bad"] in ("short", "invalid", "empty", "zero") and "ok" in res:
                return f"malformed results ({c['bad']}) accepted"
            return None
        if aux["V"] is None:
            return None
        if "ok" not in res:
            return f"process() raised {res}"
        v = np.array([[complex(*e) for e in row] for row in aux["V"]])
        d = 2**n
        ref = np.outer(v.flatten(), v.flatten().conj())
        if k == "li":
            choi = np.array([[complex(*e) for e in row] for row in res["ok"]])
            dd = float(np.abs(choi - ref).max())
            if not (dd <= 1e-8):
                return f"reference mismatch: LI choi differs from choi_from_unitary(V) by {dd:.3g}"
            if not (abs(aux["fidelity"] - 1) <= 1e-6):
                return f"reference mismatch: LI fidelity against choi_from_unitary(V) is {aux['fidelity']}"
            return None
        if k == "mle":
            herm, mineig, tp = aux["cptp"]
            if not (herm <= 1e-6 and mineig >= -1e-6):
                return f"MLE choi not positive: hermiticity defect {herm:.3g}, min eigenvalue {mineig:.3g}"
            if not (tp <= 1e-3):
                return f"MLE choi not trace preserving: partial trace deviates by {tp:.3g}"
            if not (aux["fidelity"] >= 0.99):
                return f"MLE fidelity against choi_from_unitary(V) is {aux['fidelity']:.4f} < 0.99"
            # the same number without the library's process_fidelity: the reference is pure, so
            # tr sqrt(sqrt(r) c sqrt(r)) = sqrt(<<V|c|V>>) / d
            mc = np.array([[complex(*e) for e in row] for row in aux["choi"]])
            indep = float(np.sqrt(max(np.real(v.flatten().conj() @ mc @ v.flatten()), 0.0))) / d
            if not (indep >= 0.99 and abs(indep - aux["fidelity"]) <= 1e-4):
                return f"MLE fidelity: independent value {indep:.6f} vs reported {aux['fidelity']:.6f} (bound 0.99)"
            return None
        if k == "gf":
            u = np.array([[complex(*e) for e in row] for row in aux["U"]])
            want = (abs(np.trace(u.conj().T @ v)) ** 2 + d) / (d * (d + 1))
            if not (abs(res["ok"] - want) <= 1e-8):
                return f"gate fidelity {res['ok']!r} != (|tr(U^+V)|^2+d)/(d(d+1)) = {want!r}"
            return None
        return None

    # -------------------------------------------------- known-finding signatures
    def signature(self, c, rec):
        """No known finding is left for C16 (F8 and F9 are repaired in /repo): every failure is a VIOLATION."""
        return None

    def nontrivial(self, c, obs):
        if c["kind"] in ("li", "mle", "gf"):
            return len(obs.get("inputs", [])) >= 12
        return c["kind"] in ("static", "mleparts", "tp", "tpfix")

    def stats(self, cases, recs):
        from collections import Counter
        kinds = Counter((c["kind"], c.get("n")) for c in cases)
        sigs = Counter()
        sym = Counter()
        for r in recs:
            if r["oracle"]:
                sigs[self.signature(r["case"], r) or "unmatched"] += 1
            io = r["impl"]
            if isinstance(io, dict) and isinstance(io.get("aux"), dict) and io["aux"].get("V"):
                v = np.array([[complex(*e) for e in row] for row in io["aux"]["V"]])
                sym["symmetric" if np.abs(v - v.T).max() < 1e-9 else "non-symmetric"] += 1
                sym["real" if np.abs(v.imag).max() < 1e-9 else "complex"] += 1
        return {"kinds": {f"{a}:{b}": v for (a, b), v in kinds.items()}, "oracle_failures_by_signature": dict(sigs),
                "unitaries": dict(sym), "settings_order_permuted": sum(1 for c in cases if c.get("perm") is not None)}

    def shrink(self, c):
        if c["kind"] in ("li", "mle", "gf") and len(c.get("gates", [])) > 1:
            for i in range(len(c["gates"])):
                d = copy.deepcopy({k: v for k, v in c.items() if not k.startswith("_")})
                del d["gates"][i]
                yield d


PROP = C16()

if __name__ == "__main__":
    sys.exit(core.main(PROP))
