"""C03 — Simulator amplitudes are the bosonic Fock-space amplitudes of the circuit."""
from __future__ import annotations

import copy
import math
import sys
from collections import Counter

import numpy as np

import core
import circgen as cg
import fockgen as fg
from core import clist, copt, cn, cz

import lightworks as lw
from lightworks import emulator


class C03:
    ID = "C03"
    RULE = ("random circuit trees (heralds on arbitrary input/output modes carrying 0-2 photons, 0-4 loss elements, nested heralded "
            "sub-circuits) x Fock inputs/outputs (<= 3 photons, bunched, vacuum, single states and lists, outputs=None = whole basis) "
            "plus a malformed stream (wrong length, negative entries, unequal photon numbers among inputs / inputs+outputs); single-mode "
            "circuits; histories on one Simulator (created before the circuit is completed, used for other requests first, rejected "
            "requests first, re-pointed with the circuit setter), shared State objects, single State / list forms, result[in, out]. "
            "Non-trivial = >= 2 photons in total and a circuit with >= 2 components; distinct = distinct JSON")
    COQ_TARGETS = ["theories/Exec/RunFock.vo"]
    CHUNK = 25
    TRUSTED = ["thewalrus.perm is the mathematical permanent (oracle recomputes it by direct expansion)"]
    ASSUMPTIONS = ["non-integer occupations are checked only by the Python malformed stream (TypeError), the model's states are integer lists"]

    def generate(self, rng, tier):
        n = 400 if tier == "quick" else 20000
        cases = []
        for i in range(n):
            prog, cid, nin, hp = fg.gen_circuit(rng, tier, lossy=None if i % 3 else False)
            photons = min(rng.choice([0, 1, 1, 2, 2, 3]), 4 - hp)
            k = rng.choice([1, 1, 2, 3])
            inputs = [fg.gen_state(rng, nin, photons) for _ in range(k)]
            mal = i % 6 == 5
            if rng.random() < 0.5:
                outputs = None
            else:
                outputs = [fg.gen_state(rng, nin, photons) for _ in range(rng.choice([1, 2, 4]))]
            if mal:
                r = rng.random()
                if r < 0.25:
                    inputs[0] = inputs[0] + [0]
                elif r < 0.5:
                    inputs[-1] = list(inputs[-1]); inputs[-1][0] = -1
                elif r < 0.75 and len(inputs) > 1:
                    inputs[-1] = fg.gen_state(rng, nin, photons + 1)
                elif outputs:
                    outputs[-1] = fg.gen_state(rng, nin, photons + 1) if rng.random() < 0.6 else outputs[-1][:-1]
                else:
                    inputs[0] = inputs[0][:-1]
            # early: the Simulator is created as soon as the circuit object exists, the rest of the program
            # (components, heralds, additions) then modifies the circuit in place and simulate() runs last -
            # the amplitudes must be those of the circuit as it is when simulate() is called
            case = dict(kind="sim", prog=prog, cid=cid, inputs=inputs, outputs=outputs, early=(i % 3 == 1))
            # histories on ONE Simulator object (the observed call is always the last one):
            #   twice  - the object has already answered other requests (another photon number with outputs=None,
            #            the same first input with one explicit output; with `early` also once before the circuit
            #            was completed): nothing computed on first use may be reused for a different request
            #   exc    - two rejected requests (wrong length, unequal photon numbers) come first
            #   setter - the object was created for another circuit, used, and re-pointed with `sim.circuit = c`
            case["hist"] = [None, "twice", "exc", "setter", "twice", None, "twice"][i % 7]
            other = photons - 1 if photons >= 1 else 1
            case["decoy"] = [fg.gen_state(rng, nin, other), fg.gen_state(rng, nin, photons)]
            # API forms: a single output State instead of a list, a one-element list instead of a single input State
            case["bare_out"] = rng.random() < 0.5
            case["list_in"] = rng.random() < 0.3
            cases.append(case)
        # single-mode circuits (never the final circuit of a generated tree): phase and loss on one mode,
        # occupations 0..3, all histories
        for j in range(12 if tier == "quick" else 300):
            prog = [["new", 0, 1]]
            for _ in range(rng.randint(0, 3)):
                if rng.random() < 0.6:
                    prog.append(["ps", 0, 0, rng.randrange(len(cg.PHV)), cg.gen_value_loss(rng, 0.4)])
                else:
                    prog.append(["loss", 0, 0, cg.gen_value_loss(rng, 1.0)])
            k = rng.choice([0, 1, 2, 3])
            cases.append(dict(kind="sim", prog=prog, cid=0, inputs=[[k]] * rng.choice([1, 2]),
                              outputs=rng.choice([None, [[k]], [[k], [k]]]), early=(j % 3 == 1),
                              hist=[None, "twice", "exc", "setter"][j % 4], decoy=[[k + 1], [k]],
                              bare_out=rng.random() < 0.5, list_in=rng.random() < 0.3))
        return cases

    def _circuit(self, c):
        _, pool = cg.run_impl(c["prog"])
        return pool[c["cid"]]

    def impl(self, c):
        holder = {}
        hist = c.get("hist")

        def on_step(pool, op, out, before):
            if c.get("early") and "sim" not in holder and op[0] in ("new", "unitary", "copy", "plus") and op[1] == c["cid"] \
                    and c["cid"] in pool:
                holder["sim"] = emulator.Simulator(pool[c["cid"]])
                if hist == "twice":
                    # first use while the circuit is still incomplete: whatever this call computed belongs to
                    # the circuit as it was then
                    try:
                        holder["sim"].simulate(lw.State([0] * pool[c["cid"]].input_modes))
                    except Exception:  # noqa: BLE001
                        pass

        _, pool = cg.run_impl(c["prog"], on_step=on_step, want=lambda op: [])
        circ = pool[c["cid"]]
        objs = {}      # equal states are ONE State object, used in several positions and in several calls

        def st(s):
            return objs.setdefault(tuple(s), lw.State(list(s)))

        ins = [st(s) for s in c["inputs"]]
        outs = None if c["outputs"] is None else [st(s) for s in c["outputs"]]
        if outs is not None and len(outs) == 1 and c.get("bare_out"):
            outs = outs[0]
        extra = {}

        def quiet(fn):
            try:
                fn()
                return "ok"
            except Exception as e:  # noqa: BLE001
                return type(e).__name__

        def run():
            sim = holder.get("sim")
            if sim is None:
                if hist == "setter":
                    other = lw.Circuit(max(1, circ.input_modes + 1))
                    if other.n_modes >= 2:
                        other.bs(0)
                    sim = emulator.Simulator(other)
                    quiet(lambda: sim.simulate(lw.State([1] + [0] * (other.n_modes - 1))))
                    sim.circuit = circ
                else:
                    sim = emulator.Simulator(circ)
            dec = c.get("decoy")
            if hist == "twice" and dec:
                extra["pre"] = [quiet(lambda: sim.simulate(st(dec[0]))),
                                quiet(lambda: sim.simulate(ins[0], [st(dec[1])]))]
            elif hist == "exc":
                extra["pre"] = [quiet(lambda: sim.simulate(lw.State(list(c["inputs"][0]) + [0]))),
                                quiet(lambda: sim.simulate([ins[0], lw.State([sum(c["inputs"][0]) + 1] + [0] * (len(c["inputs"][0]) - 1))])),
                                quiet(lambda: sim.simulate([ins[0], lw.State([sum(c["inputs"][0])] + [0] * len(c["inputs"][0]))]))]
            if hist == "twice":
                # the very same request once before, and whatever it handed out (outputs list, array)
                # is edited in place by the caller: the next call must not see any of it
                # (the inputs list is the caller's own object and is left alone)
                def spoil():
                    r0 = sim.simulate(ins if (len(ins) != 1 or c.get("list_in")) else ins[0], outs)
                    o0 = r0.outputs
                    if isinstance(o0, list) and outs is None:      # a list the Simulator generated itself
                        del o0[::2]
                        o0.append(lw.State([9] * max(1, circ.input_modes)))
                    a0 = r0.array
                    if hasattr(a0, "fill"):
                        a0.fill(7.0)
                extra["spoil"] = quiet(spoil)
            res = sim.simulate(ins if (len(ins) != 1 or c.get("list_in")) else ins[0], outs)
            arr = res.array
            # the [input, output] form of the result
            try:
                extra["idx"] = {"ok": [[(lambda z: [float(z.real), float(z.imag)])(complex(res[a, b])) for b in res.outputs]
                                       for a in res.inputs]}
            except Exception as e:  # noqa: BLE001
                extra["idx"] = {"err": type(e).__name__}
            return [[list(s) for s in res.outputs], [[[float(x.real), float(x.imag)] for x in row] for row in arr]]

        obs = core.guarded(run)
        obs.update(extra)
        return obs

    def compare(self, c, a, b):
        """the model predicts the observed (last) call; what the history and the [in, out] lookups returned is judged by the oracle"""
        if isinstance(a, dict):
            a = {k: v for k, v in a.items() if k in ("ok", "err")}
        return core.approx_equal(a, b)

    def coq_header(self):
        return cg.COQ_HEADER + "From LW Require Import Model.Fock Exec.RunFock.\n"

    def coq_expr(self, c):
        zl = lambda l: clist(cz(x) for x in l)
        prog = clist("(" + cg.op_to_coq(o) + ")" for o in c["prog"])
        ins = clist(zl(s) for s in c["inputs"])
        outs = copt(c["outputs"], lambda os: clist(zl(s) for s in os))
        return f"run_sim {prog} {cn(c['cid'])} {ins} {outs}"

    def decode(self, c, sx):
        def f(p):
            outs, rows = p
            return [outs, [[[a[0][0] / 1e12 / math.sqrt(a[1]), a[0][1] / 1e12 / math.sqrt(a[1])] for a in row] for row in rows]]
        return core.decode_res(sx, f)

    def oracle(self, c, obs):
        circ = self._circuit(c)
        try:
            U = circ.U_full
        except Exception:  # noqa: BLE001
            return None
        n = circ.n_modes
        loss = U.shape[0] - n
        hin, hout = circ.heralds["input"], circ.heralds["output"]
        nin = circ.input_modes
        ins, outs = c["inputs"], c["outputs"]
        bad_len = any(len(s) != nin for s in ins) or (outs is not None and any(len(s) != nin for s in outs))
        neg = any(min(s, default=0) < 0 for s in ins) or (outs is not None and any(min(s, default=0) < 0 for s in outs))
        tot = [sum(s) for s in ins] + ([sum(s) for s in outs] if outs is not None else [])
        mismatch = len(set(tot)) > 1
        if bad_len or neg or mismatch:
            if "ok" in obs:
                return f"invalid inputs/outputs were computed instead of rejected (bad_len={bad_len}, negative={neg}, photon mismatch={mismatch})"
            return None
        if "ok" not in obs:
            return f"valid simulation request raised {obs['err']}"
        used_outs, arr = obs["ok"]
        if outs is None:
            expect = sorted(map(tuple, fg.fock_states(nin, tot[0])))
            if sorted(map(tuple, used_outs)) != expect or len(used_outs) != len(expect):
                return "outputs=None did not enumerate the Fock basis exactly once"
        elif used_outs != outs:
            return "result outputs differ from the requested outputs"
        for i, s in enumerate(ins):
            fi = fg.full_state(s, hin, loss)
            for j, t in enumerate(used_outs):
                fo = fg.full_state(t, hout, loss)
                ref = fg.amplitude_ref(U, fi, fo)
                got = complex(arr[i][j][0], arr[i][j][1])
                if abs(ref - got) > 1e-9:
                    return f"amplitude {s}->{t} is {got}, permanent formula gives {ref}"
            if outs is None and loss == 0 and not hin:
                nrm = sum(arr[i][j][0] ** 2 + arr[i][j][1] ** 2 for j in range(len(used_outs)))
                if abs(nrm - 1) > 1e-9:
                    return f"lossless amplitudes from {s} do not form a unit vector (norm^2 = {nrm})"
        # result[input, output] is the same amplitude
        idx = obs.get("idx")
        if idx is not None:
            if "ok" not in idx:
                return f"result[input, output] raised {idx['err']}"
            if len(idx["ok"]) != len(ins) or any(len(r) != len(used_outs) for r in idx["ok"]):
                return "result[input, output] does not cover the requested inputs/outputs"
            for i, s in enumerate(ins):
                fi = fg.full_state(s, hin, loss)
                for j, t in enumerate(used_outs):
                    ref = fg.amplitude_ref(U, fi, fg.full_state(t, hout, loss))
                    got = complex(*idx["ok"][i][j])
                    if not abs(ref - got) <= 1e-9:
                        return f"result[{s}, {t}] is {got}, permanent formula gives {ref}"
        # the requests that came before the observed one on the same object: valid ones are answered, invalid ones rejected
        pre = obs.get("pre")
        if pre is not None:
            if c.get("hist") == "twice" and pre != ["ok", "ok"]:
                return f"valid requests preceding the observed one raised: {pre}"
            if c.get("hist") == "exc" and "ok" in pre:
                return f"invalid requests (wrong length, unequal photon numbers) preceding the observed one were computed: {pre}"
        # non-integer occupations must be rejected
        try:
            emulator.Simulator(circ).simulate(lw.State([0.5] + [0] * (nin - 1)))
            return "non-integer occupation accepted"
        except TypeError:
            pass
        except Exception as e:  # noqa: BLE001
            if nin > 0:
                return f"non-integer occupation raised {type(e).__name__}, expected TypeError"
        # ... also in an output state, and in a later position of the input list
        if nin > 0:
            good = lw.State(list(ins[0]))
            frac = list(ins[0])
            frac[-1] = frac[-1] + 0.5
            for what, call in (("output", lambda: emulator.Simulator(circ).simulate(good, [lw.State(list(frac))])),
                               ("second input", lambda: emulator.Simulator(circ).simulate([good, lw.State(list(frac))]))):
                try:
                    call()
                    return f"non-integer occupation {frac} accepted as {what}"
                except Exception:  # noqa: BLE001
                    pass
        return None

    def nontrivial(self, c, obs):
        ncomp = sum(1 for o in c["prog"] if o[0] in ("bs", "ps", "loss", "swaps", "add"))
        return sum(c["inputs"][0]) + sum(o[2] for o in c["prog"] if o[0] == "herald") >= 2 and ncomp >= 2 and "ok" in obs

    def stats(self, cases, recs):
        ph = Counter(sum(c["inputs"][0]) for c in cases)
        outc = Counter(("ok" if "ok" in r["impl"] else r["impl"].get("err", "?")) for r in recs if isinstance(r["impl"], dict))
        her = Counter(sum(1 for o in c["prog"] if o[0] == "herald") for c in cases)
        loss = Counter(sum(1 for o in c["prog"] if o[0] == "loss" or (o[0] in ("bs", "ps") and o[-2 if o[0] == "bs" else -1] is not None)) for c in cases)
        return {"input_photons": dict(ph), "outcomes": dict(outc), "heralds_in_program": dict(her), "lossy_calls": dict(loss)}

    def shrink(self, c):
        for i in range(len(c["prog"]) - 1, 0, -1):
            if c["prog"][i][0] in ("bs", "ps", "loss", "barrier", "swaps"):
                d = copy.deepcopy(c)
                del d["prog"][i]
                yield d
        if len(c["inputs"]) > 1:
            d = copy.deepcopy(c)
            d["inputs"] = d["inputs"][:1]
            yield d

    def signature(self, c, rec):
        return None


PROP = C03()

if __name__ == "__main__":
    sys.exit(core.main(PROP))
