"""C03 — Simulator amplitudes are the bosonic Fock-space amplitudes of the circuit."""
from __future__ import annotations

import copy
import math
import sys
from collections import Counter

import numpy as np

import core
import circgen as cg
import fockgen as fg
from core import clist, copt, cn, cz

import lightworks as lw
from lightworks import emulator


class C03:
    ID = "C03"
    RULE = ("random circuit trees (heralds on arbitrary input/output modes carrying 0-2 photons, 0-4 loss elements, nested heralded "
            "sub-circuits) x Fock inputs/outputs (<= 3 photons, bunched, vacuum, single states and lists, outputs=None = whole basis) "
            "plus a malformed stream (wrong length, negative entries, unequal photon numbers among inputs / inputs+outputs). "
            "Non-trivial = >= 2 photons in total and a circuit with >= 2 components; distinct = distinct JSON")
    COQ_TARGETS = ["theories/Exec/RunFock.vo"]
    CHUNK = 25
    TRUSTED = ["thewalrus.perm is the mathematical permanent (oracle recomputes it by direct expansion)"]
    ASSUMPTIONS = ["non-integer occupations are checked only by the Python malformed stream (TypeError), the model's states are integer lists"]

    def generate(self, rng, tier):
        n = 400 if tier == "quick" else 20000
        cases = []
        for i in range(n):
            prog, cid, nin, hp = fg.gen_circuit(rng, tier, lossy=None if i % 3 else False)
            photons = min(rng.choice([0, 1, 1, 2, 2, 3]), 4 - hp)
            k = rng.choice([1, 1, 2, 3])
            inputs = [fg.gen_state(rng, nin, photons) for _ in range(k)]
            mal = i % 6 == 5
            if rng.random() < 0.5:
                outputs = None
            else:
                outputs = [fg.gen_state(rng, nin, photons) for _ in range(rng.choice([1, 2, 4]))]
            if mal:
                r = rng.random()
                if r < 0.25:
                    inputs[0] = inputs[0] + [0]
                elif r < 0.5:
                    inputs[-1] = list(inputs[-1]); inputs[-1][0] = -1
                elif r < 0.75 and len(inputs) > 1:
                    inputs[-1] = fg.gen_state(rng, nin, photons + 1)
                elif outputs:
                    outputs[-1] = fg.gen_state(rng, nin, photons + 1) if rng.random() < 0.6 else outputs[-1][:-1]
                else:
                    inputs[0] = inputs[0][:-1]
            # early: the Simulator is created as soon as the circuit object exists, the rest of the program
            # (components, heralds, additions) then modifies the circuit in place and simulate() runs last -
            # the amplitudes must be those of the circuit as it is when simulate() is called
            cases.append(dict(kind="sim", prog=prog, cid=cid, inputs=inputs, outputs=outputs, early=(i % 3 == 1)))
        return cases

    def _circuit(self, c):
        _, pool = cg.run_impl(c["prog"])
        return pool[c["cid"]]

    def impl(self, c):
        holder = {}

        def on_step(pool, op, out, before):
            if c.get("early") and "sim" not in holder and op[0] in ("new", "unitary", "copy", "plus") and op[1] == c["cid"] \
                    and c["cid"] in pool:
                holder["sim"] = emulator.Simulator(pool[c["cid"]])

        _, pool = cg.run_impl(c["prog"], on_step=on_step, want=lambda op: [])
        circ = pool[c["cid"]]
        ins = [lw.State(list(s)) for s in c["inputs"]]
        outs = None if c["outputs"] is None else [lw.State(list(s)) for s in c["outputs"]]

        def run():
            sim = holder.get("sim") or emulator.Simulator(circ)
            res = sim.simulate(ins if len(ins) != 1 else ins[0], outs)
            arr = res.array
            return [[list(s) for s in res.outputs], [[[float(x.real), float(x.imag)] for x in row] for row in arr]]

        return core.guarded(run)

    def coq_header(self):
        return cg.COQ_HEADER + "From LW Require Import Model.Fock Exec.RunFock.\n"

    def coq_expr(self, c):
        zl = lambda l: clist(cz(x) for x in l)
        prog = clist("(" + cg.op_to_coq(o) + ")" for o in c["prog"])
        ins = clist(zl(s) for s in c["inputs"])
        outs = copt(c["outputs"], lambda os: clist(zl(s) for s in os))
        return f"run_sim {prog} {cn(c['cid'])} {ins} {outs}"

    def decode(self, c, sx):
        def f(p):
            outs, rows = p
            return [outs, [[[a[0][0] / 1e12 / math.sqrt(a[1]), a[0][1] / 1e12 / math.sqrt(a[1])] for a in row] for row in rows]]
        return core.decode_res(sx, f)

    def oracle(self, c, obs):
        circ = self._circuit(c)
        try:
            U = circ.U_full
        except Exception:  # noqa: BLE001
            return None
        n = circ.n_modes
        loss = U.shape[0] - n
        hin, hout = circ.heralds["input"], circ.heralds["output"]
        nin = circ.input_modes
        ins, outs = c["inputs"], c["outputs"]
        bad_len = any(len(s) != nin for s in ins) or (outs is not None and any(len(s) != nin for s in outs))
        neg = any(min(s, default=0) < 0 for s in ins) or (outs is not None and any(min(s, default=0) < 0 for s in outs))
        tot = [sum(s) for s in ins] + ([sum(s) for s in outs] if outs is not None else [])
        mismatch = len(set(tot)) > 1
        if bad_len or neg or mismatch:
            if "ok" in obs:
                return f"invalid inputs/outputs were computed instead of rejected (bad_len={bad_len}, negative={neg}, photon mismatch={mismatch})"
            return None
        if "ok" not in obs:
            return f"valid simulation request raised {obs['err']}"
        used_outs, arr = obs["ok"]
        if outs is None:
            expect = sorted(map(tuple, fg.fock_states(nin, tot[0])))
            if sorted(map(tuple, used_outs)) != expect or len(used_outs) != len(expect):
                return "outputs=None did not enumerate the Fock basis exactly once"
        elif used_outs != outs:
            return "result outputs differ from the requested outputs"
        for i, s in enumerate(ins):
            fi = fg.full_state(s, hin, loss)
            for j, t in enumerate(used_outs):
                fo = fg.full_state(t, hout, loss)
                ref = fg.amplitude_ref(U, fi, fo)
                got = complex(arr[i][j][0], arr[i][j][1])
                if abs(ref - got) > 1e-9:
                    return f"amplitude {s}->{t} is {got}, permanent formula gives {ref}"
            if outs is None and loss == 0 and not hin:
                nrm = sum(arr[i][j][0] ** 2 + arr[i][j][1] ** 2 for j in range(len(used_outs)))
                if abs(nrm - 1) > 1e-9:
                    return f"lossless amplitudes from {s} do not form a unit vector (norm^2 = {nrm})"
        # non-integer occupations must be rejected
        try:
            emulator.Simulator(circ).simulate(lw.State([0.5] + [0] * (nin - 1)))
            return "non-integer occupation accepted"
        except TypeError:
            pass
        except Exception as e:  # noqa: BLE001
            if nin > 0:
                return f"non-integer occupation raised {type(e).__name__}, expected TypeError"
        return None

    def nontrivial(self, c, obs):
        ncomp = sum(1 for o in c["prog"] if o[0] in ("bs", "ps", "loss", "swaps", "add"))
        return sum(c["inputs"][0]) + sum(o[2] for o in c["prog"] if o[0] == "herald") >= 2 and ncomp >= 2 and "ok" in obs

    def stats(self, cases, recs):
        ph = Counter(sum(c["inputs"][0]) for c in cases)
        outc = Counter(("ok" if "ok" in r["impl"] else r["impl"].get("err", "?")) for r in recs if isinstance(r["impl"], dict))
        her = Counter(sum(1 for o in c["prog"] if o[0] == "herald") for c in cases)
        loss = Counter(sum(1 for o in c["prog"] if o[0] == "loss" or (o[0] in ("bs", "ps") and o[-2 if o[0] == "bs" else -1] is not None)) for c in cases)
        return {"input_photons": dict(ph), "outcomes": dict(outc), "heralds_in_program": dict(her), "lossy_calls": dict(loss)}

    def shrink(self, c):
        for i in range(len(c["prog"]) - 1, 0, -1):
            if c["prog"][i][0] in ("bs", "ps", "loss", "barrier", "swaps"):
                d = copy.deepcopy(c)
                del d["prog"][i]
                yield d
        if len(c["inputs"]) > 1:
            d = copy.deepcopy(c)
            d["inputs"] = d["inputs"][:1]
            yield d

    def signature(self, c, rec):
        return None


PROP = C03()

if __name__ == "__main__":
    sys.exit(core.main(PROP))
