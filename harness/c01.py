"""C01 — a circuit compiles to the ordered product of its components."""
from __future__ import annotations

import copy
import math
import sys
from collections import Counter

import numpy as np

import core
import circgen as cg

import lightworks as lw


def gen_program(rng, tier, bad=0.0, exact=True):
    n = rng.randint(1, 6 if tier == "quick" else 8)
    nops = rng.randint(1, 12 if tier == "quick" else 40)
    prog = [["new", 0, n]]
    nid = 1
    for _ in range(nops):
        if rng.random() < 0.15:
            k = rng.randint(1, n)
            prog.append(["unitary", nid, k, cg.rational_unitary(rng, k)])
            mode = rng.randint(0, n - k) if rng.random() > bad else rng.randint(0, n)
            prog.append(["add", 0, nid, mode, False])
            nid += 1
        else:
            op = cg.gen_primitive(rng, 0, n, bad=bad)
            if not exact and op[0] == "bs" and not isinstance(op[4], list):
                d = rng.choice([2, 3, 7, 10])
                op[4] = ["raw", rng.randint(0, d), d]
            if not exact and op[0] in ("loss",) and rng.random() < 0.5:
                d = rng.choice([2, 3, 10])
                op[3] = ["raw", rng.randint(0, d), d]
            prog.append(op)
    return prog


def step_reference(B, A, op):
    """One accepted primitive call on a circuit that may contain ancillas: the real-mode block of
    U_full afterwards = (component on the user modes mapped past the ancillas, loss as the
    factor sqrt(1-loss)) x the block before; one extra mode per loss element."""
    if "ok" not in B[5] or "ok" not in A[5]:
        return None if B[5] == A[5] else f"compile outcome changed {B[5] if 'err' in B[5] else 'ok'} -> {A[5] if 'err' in A[5] else 'ok'}"
    n = B[0]
    if A[0] != n or A[2] != B[2] or A[3] != B[3] or A[4] != B[4]:
        return "a primitive call changed n_modes / heralds / ancillas"
    anc = set(B[4])
    vis = [m for m in range(n) if m not in anc]
    dB, UB = B[5]["ok"][0], np.array([[complex(x[0], x[1]) for x in row] for row in B[5]["ok"][1]])
    dA, UA = A[5]["ok"][0], np.array([[complex(x[0], x[1]) for x in row] for row in A[5]["ok"][1]])
    E = np.eye(n, dtype=complex)
    nloss = 0
    k = op[0]
    if k == "bs":
        _, _, m1, m2, R, L, conv = op
        m2 = m1 + 1 if m2 is None else m2
        a, b = vis[m1], vis[m2]
        r = cg._bs_value(R)
        c_, s_ = math.sqrt(r), math.sqrt(1 - r)
        if conv == "Rx":
            E[a, a], E[a, b], E[b, a], E[b, b] = c_, 1j * s_, 1j * s_, c_
        else:
            E[a, a], E[a, b], E[b, a], E[b, b] = c_, s_, s_, -c_
        l = cg._loss_value(L)
        if l > 0:
            D = np.eye(n, dtype=complex)
            D[a, a] = D[b, b] = math.sqrt(1 - l)
            E = D @ E
            nloss = 2
    elif k == "ps":
        _, _, m, P, L = op
        a = vis[m]
        E[a, a] = complex(cg.ffloat(cg.PHV[P][0]), cg.ffloat(cg.PHV[P][1]))
        l = cg._loss_value(L)
        if l > 0:
            E[a, a] *= math.sqrt(1 - l)
            nloss = 1
    elif k == "loss":
        a = vis[op[2]]
        E[a, a] = math.sqrt(1 - cg._loss_value(op[3]))
        nloss = 1
    elif k == "swaps":
        P_ = np.zeros((n, n), dtype=complex)
        sw = {vis[x]: vis[y] for x, y in op[2]}
        for i in range(n):
            P_[sw.get(i, i), i] = 1
        E = P_
    if dA != dB + nloss:
        return f"U_full dimension {dA}, expected {dB}+{nloss}"
    if not np.allclose(UA[:n, :n], E @ UB[:n, :n], atol=1e-9):
        return f"the component was not embedded on the user modes it was given (mapped past ancillas {sorted(anc)})"
    if not np.allclose(UA @ UA.conj().T, np.eye(dA), atol=1e-9):
        return "U_full is not unitary"
    return None


class C01:
    ID = "C01"
    RULE = ("random construction programs on one circuit (1-8 modes, up to 40 calls): bs both conventions / reversed / default mode_2, "
            "ps, loss, barrier, mode_swaps, Unitary blocks added ungrouped, bs/ps with loss=; values from tables with rational "
            "amplitudes (incl. 0 and 1) for the model run, arbitrary rationals for oracle-only programs; malformed stream "
            "(out-of-range modes, equal bs modes, invalid reflectivity/loss, incomplete swaps, oversize blocks); Parameter-valued "
            "scenarios (values updated after a frozen and a plain copy); call-form scenarios (defaults bs(m) / loss(m) / barrier() / add(sub), "
            "positional and keyword arguments, int and numpy-float values incl. exactly 0 and 1, phases far outside (-pi, pi], int- and "
            "float-typed and labelled blocks, grouped blocks, sub-circuits of primitives, empty and identity swap dictionaries, single-mode "
            "circuits, rejected calls in between, the caller's dict / list / array overwritten afterwards) with U_full AND U read in the "
            "middle of the construction, twice, the returned arrays overwritten by the caller. "
            "Non-trivial = >= 3 accepted components of >= 2 kinds; distinct = distinct program JSON")
    COQ_TARGETS = ["theories/Exec/RunCircuit.vo"]
    CHUNK = 60
    TRUSTED = ["Python floats vs exact rationals compared at 1e-9"]
    ASSUMPTIONS = ["documented parameter ranges; NaN and non-numeric arguments are outside the model (malformed stream checks error class only)"]

    def generate(self, rng, tier):
        n = 260 if tier == "quick" else 6000
        cases = []
        for i in range(n):
            r = i % 10
            if r < 6:
                cases.append(dict(kind="prog", model=True, prog=gen_program(rng, tier)))
            elif r < 8:
                cases.append(dict(kind="prog", model=True, prog=gen_program(rng, tier, bad=0.25)))
            else:
                cases.append(dict(kind="prog", model=False, prog=gen_program(rng, tier, exact=False)))
        # Parameter-valued components: U must be the product at the CURRENT values, before and after updates, also
        # after a frozen copy / plain copy was taken (oracle only; the store semantics is property C10's model)
        for i in range(n // 8):
            cases.append(dict(kind="param", model=False, seed=rng.randrange(10**9)))
        # components added to circuits that already contain heralded sub-circuits (user modes skip ancillas)
        for i in range(n // 4):
            cases.append(dict(kind="tree", model=True, prog=cg.gen_tree_program(rng, tier, loss_p=0.6, max_leaves=2)))
        # call forms / defaults / boundary values / reads in the middle of the construction (oracle only;
        # drawn last so that the cases above are the same as before for a given seed)
        for i in range(n if tier == "quick" else n // 3):
            cases.append(dict(kind="forms", model=False, seed=rng.randrange(10**9)))
        return cases

    def _param_scenario(self, seed):
        import random as _r
        rng = _r.Random(seed)
        n = rng.randint(2, 5)
        ops = []           # (kind, modes..., value-index), values live in vals[]
        vals, pars = [], []

        def val(lo, hi):
            vals.append(rng.uniform(lo, hi))
            pars.append(lw.Parameter(vals[-1]) if rng.random() < 0.7 else None)
            return len(vals) - 1

        def lossval():
            # loss= argument of bs/ps: None (no element), or a Parameter - possibly exactly 0 when the component
            # is added (the loss elements must exist all the same and follow later updates)
            if rng.random() < 0.5:
                return None
            vals.append(rng.choice([0.0, 0.0, rng.uniform(0.05, 0.9)]))
            pars.append(lw.Parameter(vals[-1]))
            return len(vals) - 1

        for _ in range(rng.randint(2, 7)):
            k = rng.choice(["bs", "bs", "ps", "ps", "loss"])
            if k == "bs":
                a, b = rng.sample(range(n), 2)
                ops.append(("bs", a, b, rng.choice(["Rx", "H"]), lossval(), val(0.05, 0.95)))
            elif k == "ps":
                ops.append(("ps", rng.randrange(n), lossval(), val(-3.0, 3.0)))
            else:
                ops.append(("loss", rng.randrange(n), val(0.05, 0.9)))

        def arg(i):
            return pars[i] if pars[i] is not None else vals[i]

        def build():
            c = lw.Circuit(n)
            split = rng.randrange(len(ops) + 1)
            sub = lw.Circuit(n)
            for j, o in enumerate(ops):
                tgt = sub if j < split else c
                if j == split and split > 0:
                    c.add(sub, 0, group=rng.random() < 0.5)
                if o[0] == "bs":
                    tgt.bs(o[1], o[2], reflectivity=arg(o[5]), convention=o[3], **({} if o[4] is None else {"loss": arg(o[4])}))
                elif o[0] == "ps":
                    tgt.ps(o[1], arg(o[3]), **({} if o[2] is None else {"loss": arg(o[2])}))
                else:
                    tgt.loss(o[1], arg(o[2]))
            if split == len(ops) and split > 0:
                c.add(sub, 0, group=rng.random() < 0.5)
            return c

        def product(values):
            U = np.eye(n, dtype=complex)
            for o in ops:
                E = np.eye(n, dtype=complex)
                if o[0] == "bs":
                    a, b, r = o[1], o[2], values[o[5]]
                    c_, s_ = math.sqrt(r), math.sqrt(1 - r)
                    if o[3] == "Rx":
                        E[a, a], E[a, b], E[b, a], E[b, b] = c_, 1j * s_, 1j * s_, c_
                    else:
                        E[a, a], E[a, b], E[b, a], E[b, b] = c_, s_, s_, -c_
                    if o[4] is not None:
                        D = np.eye(n, dtype=complex)
                        D[a, a] = D[b, b] = math.sqrt(1 - values[o[4]])
                        E = D @ E
                elif o[0] == "ps":
                    E[o[1], o[1]] = np.exp(1j * values[o[3]])
                    if o[2] is not None:
                        E[o[1], o[1]] *= math.sqrt(1 - values[o[2]])
                else:
                    E[o[1], o[1]] = math.sqrt(1 - values[o[2]])
                U = E @ U
            return U

        c = build()
        nloss = sum(1 for o in ops if o[0] == "loss") + sum(2 for o in ops if o[0] == "bs" and o[4] is not None) \
            + sum(1 for o in ops if o[0] == "ps" and o[2] is not None)
        old = list(vals)

        def check(circ, values, what):
            Uf = np.array(circ.U_full)
            if Uf.shape[0] != n + nloss:
                return f"{what}: U_full has dimension {Uf.shape[0]}, expected {n + nloss}"
            if not np.allclose(Uf[:n, :n], product(values), atol=1e-9):
                return f"{what}: leading block of U_full is not the ordered product of the components at their current values"
            if not np.allclose(Uf @ Uf.conj().T, np.eye(Uf.shape[0]), atol=1e-9):
                return f"{what}: U_full is not unitary"
            U = np.array(circ.U)
            if U.shape != (n, n) or not np.allclose(U, product(values), atol=1e-9):
                return f"{what}: Circuit.U is not the ordered product of the components at their current values"
            return None

        msg = check(c, old, "as built")
        if msg:
            return msg
        frozen = c.copy(freeze_parameters=True)
        plain = c.copy()
        new = list(vals)
        for i, p in enumerate(pars):
            if p is not None:
                is_phase = any(x[0] == "ps" and x[3] == i for x in ops)
                new[i] = rng.uniform(-3.0, 3.0) if is_phase else rng.uniform(0.05, 0.95)
                p.set(new[i])
        return (check(c, new, "after the parameters were updated (a frozen and a plain copy had been taken)")
                or check(plain, new, "plain copy after the update")
                or check(frozen, old, "frozen copy after the update"))

    # ------------------------------------------------------------------ call forms, defaults, boundary values, read histories
    def _forms_scenario(self, seed):
        """One circuit built through the call forms the table-driven programs never use: defaults (bs(m) = 50:50 'Rx' on
        m, m+1; loss(m) = an element with loss 0; barrier(); add(sub) at mode 0), positional / keyword arguments, int and
        numpy-float values (0 and 1 exactly), phases far outside (-pi, pi], real- and int-typed unitary blocks, labelled
        blocks, grouped blocks, sub-circuits of primitives, empty / identity swap dictionaries, empty barriers, rejected
        calls in between.  U_full and U are read in the middle of the construction (more than once, and the arrays that
        were handed out are overwritten by the caller); every read is compared with the running product computed from the
        abstract components of the case."""
        import random as _r
        rng = _r.Random(seed)
        n = rng.choice([1, 1, 2, 2, 3, 3, 4, 5])
        c = lw.Circuit(n)
        st = {"U": np.eye(n, dtype=complex), "nloss": 0, "calls": 0}

        def emb_bs(a, b, r, conv, l):
            E = np.eye(n, dtype=complex)
            c_, s_ = math.sqrt(r), math.sqrt(1 - r)
            if conv == "Rx":
                E[a, a], E[a, b], E[b, a], E[b, b] = c_, 1j * s_, 1j * s_, c_
            else:
                E[a, a], E[a, b], E[b, a], E[b, b] = c_, s_, s_, -c_
            if l is not None:
                D = np.eye(n, dtype=complex)
                D[a, a] = D[b, b] = math.sqrt(1 - l)
                E = D @ E
            return E, (2 if l is not None else 0)

        def emb_ps(m, phi, l):
            E = np.eye(n, dtype=complex)
            E[m, m] = complex(math.cos(phi), math.sin(phi)) * (1 if l is None else math.sqrt(1 - l))
            return E, (1 if l is not None else 0)

        def emb_loss(m, l):
            E = np.eye(n, dtype=complex)
            E[m, m] = math.sqrt(1 - l)
            return E, 1

        def emb_swaps(sw):
            P = np.zeros((n, n), dtype=complex)
            for i in range(n):
                P[sw.get(i, i), i] = 1
            return P, 0

        def emb_block(m, V):
            E = np.eye(n, dtype=complex)
            k = V.shape[0]
            E[m:m + k, m:m + k] = V
            return E, 0

        def num(x):
            """the same number in another numeric type"""
            r = rng.random()
            if x in (0, 1) and r < 0.5:
                return int(x)
            if r < 0.7:
                return float(x)
            return np.float64(x)

        def unit_value():
            return rng.choice([0.0, 1.0, 0.5, 0.5, rng.random(), rng.random(), 1e-12, 1 - 1e-12])

        def loss_value():
            """None = no loss element (argument omitted or literal 0)"""
            r = rng.random()
            if r < 0.55:
                return None
            return rng.choice([1.0, 0.25, rng.uniform(0.01, 0.99), 1e-9])

        def phase_value():
            return rng.choice([0, 0.0, math.pi, -math.pi, 2 * math.pi, rng.uniform(-3.2, 3.2), rng.uniform(-40, 40), 1, -3, 1e3, 1e-9])

        def do_bs(tgt, off, a, b, r, conv, l):
            """one beam splitter through one of the equivalent call forms; tgt sees the modes shifted by -off"""
            a_, b_ = a - off, b - off
            forms = ["pos", "kw", "mixed"]
            if b == a + 1:
                forms.append("m2default")
                if r == 0.5 and conv == "Rx" and l is None:
                    forms += ["alldefault", "alldefault"]
            if conv == "Rx" and l is None:
                forms.append("convdefault")
            if r == 0.5:
                forms += ["rdefault", "rdefault"]
            f = rng.choice(forms)
            lv = 0 if l is None else num(l)
            if l is None and rng.random() < 0.5:
                lv = rng.choice([0, 0.0])
            if f == "alldefault":
                tgt.bs(a_)
            elif f == "m2default":
                tgt.bs(a_, reflectivity=num(r), loss=lv, convention=conv)
            elif f == "convdefault":
                tgt.bs(a_, b_, num(r))
            elif f == "rdefault":
                tgt.bs(a_, b_, convention=conv, loss=lv)
            elif f == "pos":
                tgt.bs(a_, b_, num(r), lv, conv)
            elif f == "kw":
                tgt.bs(mode_1=a_, mode_2=b_, reflectivity=num(r), loss=lv, convention=conv)
            else:
                tgt.bs(a_, b_, num(r), convention=conv, loss=lv)

        def do_ps(tgt, off, m, phi, l):
            m_ = m - off
            if l is None:
                f = rng.choice(["pos2", "pos3", "kw"])
                if f == "pos2":
                    tgt.ps(m_, phi)
                elif f == "pos3":
                    tgt.ps(m_, phi, rng.choice([0, 0.0]))
                else:
                    tgt.ps(mode=m_, phi=phi)
            elif rng.random() < 0.5:
                tgt.ps(m_, phi, num(l))
            else:
                tgt.ps(phi=phi, loss=num(l), mode=m_)

        def do_loss(tgt, off, m, l):
            m_ = m - off
            if l == 0 and rng.random() < 0.6:
                tgt.loss(m_)                 # the default: an element that loses nothing, but owns a loss mode
            elif rng.random() < 0.5:
                tgt.loss(m_, num(l))
            else:
                tgt.loss(loss=num(l), mode=m_)

        def do_swaps(tgt, off, sw):
            d = {k - off: v - off for k, v in sw.items()}
            tgt.mode_swaps(d)
            d.clear()                        # the caller's dictionary is reused afterwards
            d[0] = 99

        def do_barrier(tgt, off, modes):
            if modes is None:
                tgt.barrier()
            else:
                lst = [m - off for m in modes]
                tgt.barrier(lst)
                lst.append(99)
                lst[:1] = [98]

        def gen_comp(lo, hi):
            """abstract component on modes lo..hi-1 (absolute numbering)"""
            w = hi - lo
            kinds = ["ps", "ps", "loss", "barrier", "swaps"] + (["bs", "bs", "bs"] if w >= 2 else [])
            k = rng.choice(kinds)
            if k == "bs":
                a = rng.randrange(lo, hi)
                b = rng.choice([m for m in range(lo, hi) if m != a])
                if rng.random() < 0.5 and a + 1 < hi:
                    b = a + 1
                if rng.random() < 0.2 and a + 1 < hi:
                    return ("bs", a, a + 1, 0.5, "Rx", None)          # what bs(a) means
                return ("bs", a, b, unit_value(), rng.choice(["Rx", "H"]), loss_value())
            if k == "ps":
                return ("ps", rng.randrange(lo, hi), phase_value(), loss_value())
            if k == "loss":
                return ("loss", rng.randrange(lo, hi), rng.choice([0, 0, 1, 0.5, rng.random()]))
            if k == "barrier":
                r = rng.random()
                return ("barrier", None if (r < 0.4 and lo == 0 and hi == n) else ([] if r < 0.6 else rng.sample(range(lo, hi), rng.randint(1, w))))
            r = rng.random()
            if r < 0.2:
                return ("swaps", {})
            ks = rng.sample(range(lo, hi), rng.randint(1, w))
            vs = list(ks)
            rng.shuffle(vs)
            return ("swaps", dict(zip(ks, vs)))

        def reference(comp):
            k = comp[0]
            if k == "bs":
                return emb_bs(*comp[1:])
            if k == "ps":
                return emb_ps(*comp[1:])
            if k == "loss":
                return emb_loss(*comp[1:])
            if k == "swaps":
                return emb_swaps(comp[1])
            return np.eye(n, dtype=complex), 0

        def call(tgt, off, comp):
            k = comp[0]
            if k == "bs":
                do_bs(tgt, off, *comp[1:])
            elif k == "ps":
                do_ps(tgt, off, *comp[1:])
            elif k == "loss":
                do_loss(tgt, off, *comp[1:])
            elif k == "swaps":
                do_swaps(tgt, off, comp[1])
            else:
                do_barrier(tgt, off, comp[1])

        def record(E, nl):
            st["U"] = E @ st["U"]
            st["nloss"] += nl
            st["calls"] += 1

        def block():
            k = rng.randint(1, n)
            m = rng.randint(0, n - k)
            r = rng.random()
            if r < 0.3:                      # permutation, int dtype
                p = list(range(k))
                rng.shuffle(p)
                V = np.zeros((k, k), dtype=int)
                for i, j in enumerate(p):
                    V[j, i] = 1
            elif r < 0.55:                   # real rotation / reflection, float dtype
                V = np.eye(k)
                if k >= 2:
                    i, j = rng.sample(range(k), 2)
                    t = rng.uniform(-3, 3)
                    V[i, i], V[i, j], V[j, i], V[j, j] = math.cos(t), -math.sin(t), math.sin(t), math.cos(t)
                else:
                    V[0, 0] = -1.0
            else:
                V = cg.v_to_np(cg.rational_unitary(rng, k))
            ref = np.array(V, dtype=complex)
            u = lw.Unitary(V, label=rng.choice(["", "X", "a long label"])) if rng.random() < 0.5 else lw.Unitary(V)
            V[...] = 0                       # the caller's array is reused afterwards
            extra = None
            if rng.random() < 0.3:           # the block circuit is an ordinary circuit: it can be extended before it is added
                extra = ("ps", m + rng.randrange(k), phase_value(), None)
                do_ps(u, m, *extra[1:])
            f = rng.choice(["pos", "kw", "group", "named"] + (["default"] * 3 if m == 0 else []))
            if f == "default":
                c.add(u)
            elif f == "pos":
                c.add(u, m)
            elif f == "kw":
                c.add(circuit=u, mode=m, group=False)
            elif f == "group":
                c.add(u, m, True)
            else:
                c.add(u, m, group=True, name=rng.choice(["", "blk"]))
            record(*emb_block(m, ref))
            if extra:
                record(*reference(extra))

        def subcircuit():
            w = rng.randint(1, n)
            m = rng.randint(0, n - w)
            sub = lw.Circuit(w)
            comps = [gen_comp(m, m + w) for _ in range(rng.randint(0, 3))]
            comps = [x for x in comps if not (x[0] == "barrier" and x[1] is None)]
            for x in comps:
                call(sub, m, x)
            if m == 0 and rng.random() < 0.5:
                c.add(sub)
            else:
                c.add(sub, m, group=rng.random() < 0.5)
            for x in comps:
                record(*reference(x))

        def rejected():
            """a call that must be refused; whatever it raises, nothing may have been recorded"""
            r = rng.randrange(8)
            try:
                if r == 0:
                    c.bs(0, 0) if n == 1 or rng.random() < 0.5 else c.bs(n - 1)
                elif r == 1:
                    c.ps(n, 0.3)
                elif r == 2:
                    c.loss(0, rng.choice([1.5, -0.25, 1.001]))
                elif r == 3 and n >= 2:
                    c.bs(0, 1, rng.choice([1.5, -0.1]))
                elif r == 4 and n >= 2:
                    c.bs(0, 1, 0.5, rng.choice([1.5, -0.1, 2]))
                elif r == 5:
                    c.mode_swaps({0: n - 1} if n >= 2 else {0: 1})
                elif r == 6:
                    c.add(lw.Unitary(np.eye(n, dtype=complex)), 1)
                elif r == 7:
                    c.ps(0, 0.1, rng.choice([3, -0.001]))
                else:
                    c.barrier([n])
            except Exception:  # noqa: BLE001
                return None
            return "a call with an out-of-range mode or value was accepted"

        def read(what):
            exp_dim = n + st["nloss"]
            for attempt in range(2):
                Uf = c.U_full
                if Uf.shape != (exp_dim, exp_dim):
                    return f"{what}: U_full has shape {Uf.shape}, expected n + #loss = {exp_dim}"
                if not np.allclose(Uf[:n, :n], st["U"], atol=1e-9, rtol=0):
                    return (f"{what}: leading block of U_full is not the ordered product of the {st['calls']} components added so far "
                            f"(max dev {np.abs(Uf[:n, :n] - st['U']).max():.3g}, read #{attempt + 1})")
                if not np.allclose(Uf @ Uf.conj().T, np.eye(exp_dim), atol=1e-9, rtol=0):
                    return f"{what}: U_full is not unitary"
                U = c.U
                if U.shape != (n, n) or not np.allclose(U, st["U"], atol=1e-9, rtol=0):
                    return f"{what}: Circuit.U is not the leading block of U_full / the ordered product (read #{attempt + 1})"
                if c.n_modes != n:
                    return f"{what}: n_modes = {c.n_modes}, expected {n}"
                # the caller scribbles over what it was given; the next read must not notice
                try:
                    Uf[...] = 7
                    U[...] = 7
                except ValueError:
                    pass                     # a read-only array is fine too
            return None

        nsteps = rng.randint(1, 9)
        for i in range(nsteps):
            r = rng.random()
            if r < 0.62:
                x = gen_comp(0, n)
                call(c, 0, x)
                record(*reference(x))
            elif r < 0.76:
                block()
            elif r < 0.88:
                subcircuit()
            else:
                msg = rejected()
                if msg:
                    return f"step {i}: {msg}"
            if rng.random() < 0.35:
                msg = read(f"after call {i + 1} of {nsteps}")
                if msg:
                    return msg
        return read("at the end")

    def impl(self, c):
        if c["kind"] in ("param", "forms"):
            try:
                return {"fail": (self._param_scenario if c["kind"] == "param" else self._forms_scenario)(c["seed"])}
            except Exception as e:  # noqa: BLE001  (every call of these scenarios is valid unless wrapped in its own try)
                return {"fail": f"a valid construction call or a read of U / U_full raised {type(e).__name__}: {e}"}
        if c["kind"] == "tree":
            self._fail = None

            def on_step(pool, op, out, before):
                if self._fail or "err" in out or op[0] not in ("bs", "ps", "loss", "swaps", "barrier"):
                    return
                msg = step_reference(before[op[1]], cg.snapshot(pool[op[1]]), op)
                if msg:
                    self._fail = f"op {op}: {msg}"

            obs, _ = cg.run_impl(c["prog"], on_step=on_step, want=lambda op: (op[1],))
            obs.append({"step": self._fail})
            return obs
        obs, _ = cg.run_impl(c["prog"])
        return obs

    def coq_header(self):
        return cg.COQ_HEADER

    def coq_expr(self, c):
        if not c["model"]:
            return "SL nil"
        return cg.prog_to_coq(c["prog"])

    def decode(self, c, sx):
        if not c["model"]:
            return None
        return cg.decode_world(sx)

    def compare(self, c, a, b):
        if not c["model"]:
            return None
        return core.approx_equal(a[:2], b)

    # the property stated directly on the implementation
    def oracle(self, c, obs):
        if c["kind"] in ("param", "forms"):
            return obs["fail"]
        if c["kind"] == "tree":
            return obs[2]["step"]
        prog = c["prog"]
        outcomes, world = obs
        n = prog[0][2]
        U = np.eye(n, dtype=complex)
        nloss = 0
        blocks = {}
        for op, out in zip(prog, outcomes):
            if "err" in out:
                continue
            k = op[0]
            E = np.eye(n, dtype=complex)
            if k == "unitary":
                blocks[op[1]] = cg.v_to_np(op[3])
                continue
            if k == "bs":
                _, _, m1, m2, R, L, conv = op
                m2 = m1 + 1 if m2 is None else m2
                r = cg._bs_value(R)
                c_, s_ = math.sqrt(r), math.sqrt(1 - r)
                if conv == "Rx":
                    E[m1, m1], E[m1, m2], E[m2, m1], E[m2, m2] = c_, 1j * s_, 1j * s_, c_
                else:
                    E[m1, m1], E[m1, m2], E[m2, m1], E[m2, m2] = c_, s_, s_, -c_
                U = E @ U
                l = cg._loss_value(L)
                if l > 0:
                    D = np.eye(n, dtype=complex)
                    D[m1, m1] = D[m2, m2] = math.sqrt(1 - l)
                    U = D @ U
                    nloss += 2
            elif k == "ps":
                _, _, m, P, L = op
                E[m, m] = complex(cg.ffloat(cg.PHV[P][0]), cg.ffloat(cg.PHV[P][1]))
                U = E @ U
                l = cg._loss_value(L)
                if l > 0:
                    D = np.eye(n, dtype=complex)
                    D[m, m] = math.sqrt(1 - l)
                    U = D @ U
                    nloss += 1
            elif k == "loss":
                l = cg._loss_value(op[3])
                E[op[2], op[2]] = math.sqrt(1 - l)
                U = E @ U
                nloss += 1
            elif k == "swaps":
                P = np.zeros((n, n), dtype=complex)
                sw = {a: b for a, b in op[2]}
                for i in range(n):
                    P[sw.get(i, i), i] = 1
                U = P @ U
            elif k == "add":
                V = blocks[op[2]]
                kk = V.shape[0]
                E[op[3]:op[3] + kk, op[3]:op[3] + kk] = V
                U = E @ U
        snap = dict((cid, s) for cid, s in world)[0]
        if snap[0] != n:
            return f"n_modes changed: {snap[0]} != {n}"
        if "ok" not in snap[5]:
            return f"U_full raised {snap[5]}"
        dim, rows = snap[5]["ok"]
        Ufull = np.array([[complex(x[0], x[1]) for x in row] for row in rows])
        if dim != n + nloss:
            return f"U_full has dimension {dim}, expected n + #loss = {n + nloss}"
        if not np.allclose(Ufull[:n, :n], U, atol=1e-9):
            return f"leading block of U_full is not the ordered product of the component embeddings (max dev {np.abs(Ufull[:n,:n]-U).max():.3g})"
        if not np.allclose(Ufull @ Ufull.conj().T, np.eye(dim), atol=1e-9) or not np.allclose(Ufull.conj().T @ Ufull, np.eye(dim), atol=1e-9):
            return f"U_full is not unitary (max dev {np.abs(Ufull @ Ufull.conj().T - np.eye(dim)).max():.3g})"
        # Circuit.U must be the leading block
        _, pool = cg.run_impl(prog)
        if not np.allclose(pool[0].U, Ufull[:n, :n], atol=1e-12):
            return "Circuit.U is not the leading block of U_full"
        return None

    def nontrivial(self, c, obs):
        if c["kind"] in ("param", "forms"):
            return True
        outcomes = obs[0]
        kinds = Counter(op[0] for op, out in zip(c["prog"], outcomes) if "ok" in out and op[0] not in ("new", "unitary"))
        return sum(kinds.values()) >= 3 and len(kinds) >= 2

    def stats(self, cases, recs):
        ops = Counter()
        errs = Counter()
        sizes = Counter()
        for r in recs:
            if not isinstance(r["impl"], list):
                continue
            for op, out in zip(r["case"].get("prog", []), r["impl"][0]):
                ops[op[0]] += 1
                if "err" in out:
                    errs[out["err"]] += 1
            if r["case"]["kind"] == "prog":
                sizes[r["case"]["prog"][0][2]] += 1
        return {"ops": dict(ops), "rejected_calls_by_class": dict(errs), "n_modes": dict(sizes),
                "model_cases": sum(1 for c in cases if c["model"]), "oracle_only_cases": sum(1 for c in cases if not c["model"])}

    def shrink(self, c):
        if "prog" not in c:
            return
        prog = c["prog"]
        for i in range(len(prog) - 1, 0, -1):
            d = copy.deepcopy(c)
            del d["prog"][i]
            used = {o[2] for o in d["prog"] if o[0] == "add"}
            d["prog"] = [o for o in d["prog"] if not (o[0] == "unitary" and o[1] not in used)]
            defined = {o[1] for o in d["prog"] if o[0] == "unitary"}
            if all(o[2] in defined for o in d["prog"] if o[0] == "add"):
                yield d

    def signature(self, c, rec):
        return None


PROP = C01()

if __name__ == "__main__":
    sys.exit(core.main(PROP))
