"""C12 — Qiskit conversion preserves the circuit's unitary, or refuses.

Correspondence: the Coq model (Model/Convert.v) decides, for a qiskit program given as
(name, circuit-level qubit indices, has-parameter) triples, WHICH lightworks gate is added WHERE, which
swaps are inserted, which gates are post-selected, which rules are returned, or which exception class
is raised.  The harness replays the model's emitted program on a fresh lw.Circuit with the real gate
library and compares U_full / heralds / n_modes / input_modes / rules with what the real
qiskit_converter returned.  Gate matrices are C13, Circuit.add is C02.

Oracle: heralded amplitudes of the converted circuit on the dual-rail basis (lw.emulator.Simulator)
against qiskit.quantum_info.Operator(qc), one common non-zero scalar, zero leakage.
"""
from __future__ import annotations

import copy
import itertools
import math
import signal
import sys
import warnings

import numpy as np

import core
from core import cb, clist, cn, decode_res

import lightworks as lw
from lightworks import emulator
from lightworks.qubit import qiskit_converter
from lightworks.qubit.converter.qiskit_convert import (
    QiskitConverter,
    convert_two_qubits_to_adjacent,
    post_selection_analyzer,
)

warnings.filterwarnings("ignore")

from qiskit import QuantumCircuit, QuantumRegister  # noqa: E402
from qiskit.circuit import Gate  # noqa: E402
from qiskit.circuit.library import MCXGate  # noqa: E402
from qiskit.quantum_info import Operator  # noqa: E402

NAMES = ["h", "x", "y", "z", "s", "sdg", "t", "tdg", "sx", "rx", "ry", "rz", "p",
         "cx", "cz", "swap", "ccx", "ccz"]
CODE = {n: i for i, n in enumerate(NAMES)}
SINGLE = NAMES[:9]
ROT = NAMES[9:13]
TWO = NAMES[13:16]
THREE = NAMES[16:18]
ARITY = {**{n: 1 for n in SINGLE + ROT}, **{n: 2 for n in TWO}, **{n: 3 for n in THREE}}
# unsupported standard instructions used by the malformed stream: name -> (n_qubits, n_params)
UNSUPPORTED = {"cy": (2, 0), "ch": (2, 0), "u": (1, 3), "id": (1, 0), "cp": (2, 1), "crz": (2, 1),
               "iswap": (2, 0), "cswap": (3, 0), "rxx": (2, 1), "r": (1, 2)}
ANGLES = [0.0, math.pi, math.pi / 2, -math.pi / 2, math.pi / 4, 2 * math.pi, 0.3, -1.1, 2.5, 4.0, 5.9,
          # boundary values: odd multiples of pi beyond 2 pi and negative ones (half-angle sign), Python ints, tiny and large angles
          3 * math.pi, -math.pi, -2 * math.pi, 7.5, -9.0, 1, -2, 3, 1e-9, 13.0]


class Hang(Exception):
    pass


def _alarm(signum, frame):  # noqa: ARG001
    raise Hang()


def with_timeout(fn, seconds):
    """Run fn() in the main thread, raising Hang if it does not return in time."""
    old = signal.signal(signal.SIGALRM, _alarm)
    signal.setitimer(signal.ITIMER_REAL, seconds)
    try:
        return fn()
    finally:
        signal.setitimer(signal.ITIMER_REAL, 0)
        signal.signal(signal.SIGALRM, old)


# ----------------------------------------------------------------------------
# case <-> qiskit
# ----------------------------------------------------------------------------
def G(n, q, p=None, c=False):
    d = {"n": n, "q": list(q), "p": list(p or [])}
    if c:
        d["c"] = True
    return d


def build_qc(case):
    """The qiskit circuit described by a case.  Qubit numbers in the case are circuit-level indices;
    with 'regs' the circuit is made of several registers (same qubits, same meaning)."""
    regs = case.get("regs")
    nq = case["nq"]
    needs_clbit = any(g["n"] == "measure" for g in case["gates"])
    if regs:
        qregs = [QuantumRegister(sz, f"r{k}") for k, sz in enumerate(regs)]
        qc = QuantumCircuit(*qregs)
        if needs_clbit:
            from qiskit import ClassicalRegister
            qc.add_register(ClassicalRegister(1, "c"))
    else:
        qc = QuantumCircuit(nq, 1) if needs_clbit else QuantumCircuit(nq)
    for g in case["gates"]:
        n, q, p = g["n"], g["q"], g["p"]
        if g.get("c"):
            qc.append(Gate(n, len(q), list(p)), q)
        elif n == "measure":
            qc.measure(q[0], 0)
        elif n == "barrier":
            qc.barrier(*q)
        elif n == "mcx":
            qc.append(MCXGate(len(q) - 1), q)
        else:
            getattr(qc, n)(*p, *q)
    return qc


def triples(qc):
    """What the model sees: (name code, circuit-level qubit indices, has-parameter).
    This is the harness' reading of the qiskit objects (DESIGN section 5)."""
    out = []
    for inst in qc.data:
        name = inst.operation.name
        qs = [qc.find_bit(b).index for b in inst.qubits]
        out.append((CODE.get(name, 18), qs, len(inst.operation.params) > 0))
    return out


def circuit_obs(circ, ps):
    u = np.asarray(circ.U_full)
    her = circ.heralds
    rules = None
    if ps is not None:
        rules = sorted([[int(m) for m in r.modes], [int(k) for k in r.n_photons]] for r in ps.rules)
    return {
        "n_modes": int(circ.n_modes), "input_modes": int(circ.input_modes),
        "heralds": {"input": [[int(a), int(b)] for a, b in her["input"].items()],
                    "output": [[int(a), int(b)] for a, b in her["output"].items()]},
        "U": [[[float(z.real), float(z.imag)] for z in row] for row in u],
        "rules": rules,
    }


def replay(case, ops, rules):
    """Build a fresh circuit from the model's emitted program with the real gate library, making the
    same calls the converter makes."""
    q = lw.qubit
    single = {"h": q.H, "x": q.X, "y": q.Y, "z": q.Z, "s": q.S, "sdg": q.Sadj, "t": q.T,
              "tdg": q.Tadj, "sx": q.SX}
    rot = {"rx": q.Rx, "ry": q.Ry, "rz": q.Rz, "p": q.P}
    circ = lw.Circuit(2 * case["nq"])
    for op in ops:
        tag = op[0]
        if tag == 0:
            name, inst, mode = NAMES[op[1]], op[2], op[3]
            if name in single:
                circ.add(single[name](), mode)
            else:
                circ.add(rot[name](case["gates"][inst]["p"][0]), mode)
        elif tag == 1:
            circ.add(q.SWAP((op[1], op[2]), (op[3], op[4])), 0)
        elif tag == 2:
            circ.add(q.CZ_Heralded() if op[1] else q.CZ(), op[2])
        elif tag == 3:
            circ.add(q.CNOT_Heralded(op[2]) if op[1] else q.CNOT(op[2]), op[3])
        elif tag == 4:
            circ.add(q.CCZ(), op[1])
        elif tag == 5:
            circ.add(q.CCNOT(op[1]), op[2])
        else:
            raise ValueError(f"unknown emitted op {op}")
    ps = None
    if rules is not None:
        ps = lw.PostSelection()
        for qb in rules:
            ps.add((2 * qb, 2 * qb + 1), 1)
    return circ, ps


# ----------------------------------------------------------------------------
# oracle helpers
# ----------------------------------------------------------------------------
def fock_states(n_modes, n_photons):
    if n_modes == 1:
        yield (n_photons,)
        return
    for k in range(n_photons, -1, -1):
        for rest in fock_states(n_modes - 1, n_photons - k):
            yield (k, *rest)


def dual_rail(bits):
    s = []
    for b in bits:
        s += [0, 1] if b else [1, 0]
    return s


def heralded_cost(circ, nq, n_out):
    ph = nq + sum(circ.heralds["input"].values())
    # ~10 ns per unit: Ryser permanent of size ph plus ~35 us python overhead per (input, output) pair
    return (2 ** nq) * n_out * ((2 ** ph) * ph + 3500), ph


def check_unitary(circ, ps, qc, nq, budget):
    """The property: accepted amplitudes on the dual-rail basis = k * Operator(qc), k != 0, no leakage.
    Returns (message or None, evaluated?)."""
    rules = [] if ps is None else [(tuple(r.modes), tuple(r.n_photons)) for r in ps.rules]
    outs = [s for s in fock_states(2 * nq, nq)
            if all(sum(s[m] for m in ms) in ns for ms, ns in rules)]
    cost, _ = heralded_cost(circ, nq, len(outs))
    if cost > budget:
        return None, False
    basis = list(itertools.product([0, 1], repeat=nq))          # bits[q] = value of qubit q
    idx = {b: sum(bit << k for k, bit in enumerate(b)) for b in basis}   # qiskit little-endian
    dr = {tuple(dual_rail(b)): b for b in basis}
    inputs = [lw.State(dual_rail(b)) for b in basis]
    res = emulator.Simulator(circ).simulate(inputs, [lw.State(list(s)) for s in outs])
    amps = np.asarray(res.array)                                 # [input, output]
    if not np.all(np.isfinite(amps)):
        return "the converted circuit has amplitudes that are not finite numbers", True
    V = np.asarray(Operator(qc).data)
    A = np.zeros((2 ** nq, 2 ** nq), dtype=complex)              # A[out, in]
    leak = 0.0
    leak_at = None
    for j, s in enumerate(outs):
        if s in dr:
            for i, b in enumerate(basis):
                A[idx[dr[s]], idx[b]] = amps[i, j]
        else:
            m = float(np.max(np.abs(amps[:, j])))
            if m > leak:
                leak, leak_at = m, s
    missing = [b for b in basis if tuple(dual_rail(b)) not in set(outs)]
    if missing:
        return f"the returned post-selection rules reject the dual-rail state of {missing[0]}", True
    k = np.vdot(V, A) / np.vdot(V, V)
    if abs(k) < 1e-12:
        return "accepted amplitudes are not a NON-ZERO multiple of the qiskit unitary (scalar ~ 0)", True
    resid = float(np.linalg.norm(A - k * V) / np.linalg.norm(k * V))
    if resid > 1e-6:
        return (f"accepted dual-rail amplitudes are not proportional to qiskit's unitary: "
                f"relative residual {resid:.3g} (|k|={abs(k):.3g})"), True
    if leak > max(1e-12, 1e-6 * abs(k)):
        return f"accepted output {list(leak_at)} outside the dual-rail subspace has amplitude {leak:.3g}", True
    return None, True


# ----------------------------------------------------------------------------
# generators
# ----------------------------------------------------------------------------
def rand_gate(rng, nq, names):
    names = [n for n in names if ARITY[n] <= nq]
    n = rng.choice(names)
    qs = rng.sample(range(nq), ARITY[n])
    if ARITY[n] == 3 and rng.random() < 0.7 and nq >= 3:
        lo = rng.randint(0, nq - 3)
        qs = rng.sample([lo, lo + 1, lo + 2], 3)
    return G(n, qs, [rng.choice(ANGLES)] if n in ROT else [])


def rand_circuit(rng, nq, n_gates, ps, w1=0.5, allow3=True):
    gates = []
    for _ in range(n_gates):
        r = rng.random()
        if r < w1 or nq == 1:
            pool = SINGLE + ROT
        elif r < 0.93 or nq < 3 or not allow3:
            pool = TWO
        else:
            pool = THREE
        gates.append(rand_gate(rng, nq, pool))
    return dict(kind="conv", nq=nq, ps=ps, gates=gates)


def f2_shape(rng):
    """A three-qubit gate followed (after single-qubit gates) by a two-qubit gate on two of its qubits,
    everything else such that the converter accepts: the shape of finding F2."""
    nq = rng.choice([3, 3, 4])
    lo = rng.randint(0, nq - 3)
    tri = [lo, lo + 1, lo + 2]
    gates = [G("h", [q]) for q in tri]
    gates.append(G(rng.choice(THREE), rng.sample(tri, 3)))
    pair = rng.sample(tri, 2)
    for q in pair:
        gates.append(rand_gate(rng, nq, ["h", "sx", "ry", "rx"]) | {"q": [q]})
    gates.append(G(rng.choice(["cz", "cx"]), pair))
    for q in rng.sample(tri, 2):
        gates.append(G(rng.choice(["h", "sx"]), [q]))
    return dict(kind="conv", nq=nq, ps=True, gates=gates)


def late_three(rng):
    """Three-qubit gates near the end of the program (where the analyser lets them through)."""
    nq = rng.choice([3, 3, 4])
    gates = rand_circuit(rng, nq, rng.randint(0, 5), True, w1=0.6, allow3=False)["gates"]
    lo = rng.randint(0, nq - 3)
    tri = [lo, lo + 1, lo + 2]
    gates.append(G(rng.choice(THREE), rng.sample(tri, 3)))
    free = [q for q in range(nq)]
    for _ in range(rng.randint(0, 3)):
        r = rng.random()
        if r < 0.6:
            gates.append(rand_gate(rng, nq, SINGLE + ROT))
        elif r < 0.8 and nq == 4:
            # two-qubit gate sharing exactly one qubit with the three-qubit gate
            other = [q for q in free if q not in tri][0]
            pair = [rng.choice(tri), other]
            rng.shuffle(pair)
            gates.append(G(rng.choice(TWO), pair))
        else:
            gates.append(G(rng.choice(THREE), rng.sample(tri, 3)))
    return dict(kind="conv", nq=nq, ps=True, gates=gates)


def malformed(rng):
    nq = rng.randint(1, 5)
    ps = rng.random() < 0.5
    base = rand_circuit(rng, nq, rng.randint(0, 5), ps, allow3=ps)["gates"]
    kind = rng.choice([0, 0, 1, 2, 3, 4, 4, 5, 5, 6, 6, 6, 6, 7, 8, 8])
    bad = None
    if kind == 0:
        cands = [n for n, (a, _) in UNSUPPORTED.items() if a <= nq]
        n = rng.choice(cands)
        a, npar = UNSUPPORTED[n]
        bad = G(n, rng.sample(range(nq), a), [rng.choice(ANGLES) for _ in range(npar)])
    elif kind == 1:
        bad = G("measure", [rng.randrange(nq)])
    elif kind == 2:
        bad = G("barrier", rng.sample(range(nq), rng.randint(1, nq)))
    elif kind == 3 and nq >= 4:
        bad = G("mcx", rng.sample(range(nq), rng.randint(4, nq)))
    elif kind == 4 and nq >= 4:
        # three-qubit gate on non-adjacent qubits
        while True:
            qs = rng.sample(range(nq), 3)
            if max(qs) - min(qs) != 2:
                break
        bad = G(rng.choice(THREE), qs)
        ps = True
    elif kind == 5 and nq >= 3:
        # three-qubit gate with allow_post_selection False
        lo = rng.randint(0, nq - 3)
        bad = G(rng.choice(THREE), rng.sample([lo, lo + 1, lo + 2], 3))
        ps = False
    elif kind == 6:
        # custom instruction carrying a supported NAME with the wrong shape
        n = rng.choice(NAMES)
        a = rng.choice([a for a in (1, 2, 3, 4) if a <= nq])
        bad = G(n, rng.sample(range(nq), a), [0.3] if rng.random() < 0.5 else [], c=True)
    elif kind == 7:
        n = rng.choice(["foo", "cy", "u"])
        a = rng.choice([a for a in (1, 2, 3) if a <= nq])
        bad = G(n, rng.sample(range(nq), a), [], c=True)
    elif kind == 8 and nq >= 3:
        # three-qubit gate too early: a later gate touches two of its qubits (must be refused)
        lo = rng.randint(0, nq - 3)
        tri = [lo, lo + 1, lo + 2]
        base = [*base, G(rng.choice(THREE), rng.sample(tri, 3)), G(rng.choice(SINGLE), [rng.choice(tri)]),
                G(rng.choice(TWO), rng.sample(tri, 2))]
        ps = True
    if bad is not None:
        pos = rng.randint(0, len(base))
        base = base[:pos] + [bad] + base[pos:]
    return dict(kind="conv", nq=nq, ps=ps, gates=base, malformed=True)


def multireg(rng):
    nq = rng.randint(2, 4)
    cut = rng.randint(1, nq - 1)
    regs = [cut, nq - cut]
    if nq == 4 and rng.random() < 0.3:
        regs = [1, 2, 1]
    c = rand_circuit(rng, nq, rng.randint(1, 6), rng.random() < 0.5, allow3=False)
    c["regs"] = regs
    return c


class C12:
    ID = "C12"
    RULE = ("random qiskit circuits over the 18 supported gates (<=4 qubits quick / <=5 thorough, <=10 gates, adjacent, "
            "non-adjacent and reversed qubits, both allow_post_selection values), F2-shaped programs (3-qubit gate "
            "then 2-qubit gate on two of its qubits), multi-register circuits, a malformed stream (unsupported/"
            "measure/barrier/4-qubit/non-adjacent ccx/ccz without post-selection/custom instructions with a supported "
            "name), exhaustive convert_two_qubits_to_adjacent on all pairs < 9, post_selection_analyzer on random "
            "programs; rotation angles include multiples of pi beyond 2 pi, negative, integer and tiny values; the converter is "
            "called positionally, with the documented default and by keyword; objects that are not qiskit circuits must be refused. "
            "History (oracle): one long-lived QiskitConverter re-configured through its allow_post_selection attribute converts "
            "every case after the fresh conversion and must agree with it (also after refused conversions), earlier results must "
            "not change, every returned circuit / PostSelection is edited in place and each program is converted once more at the "
            "end; the qiskit circuit must be left unchanged; non-trivial = at least one multi-qubit instruction (conv/ana) or "
            "non-adjacent pair (adj); "
            "distinct = distinct canonical JSON")
    TRUSTED = ["reading (name, circuit-level qubit index, has-parameter) off qiskit instruction objects is done by the harness (find_bit)",
               "the harness replays the model's emitted program with the real gate library (gate matrices = C13, Circuit.add = C02)",
               "photon-count abstraction of post-selection failure (ConvertP.v, section PSAbstract) is a modelling assumption",
               "oracle uses lw.emulator.Simulator for amplitudes (C03) and qiskit.quantum_info.Operator as the reference"]
    ASSUMPTIONS = ["instructions act on distinct qubits (enforced by qiskit)",
                   "rotation parameters are bound floats",
                   "oracle evaluated only where the permanent cost is within the tier's budget (counted in the distribution)"]
    CHUNK = 150

    def __init__(self):
        self.tier = "quick"
        self.oracle_runs = 0
        self.oracle_skipped = 0

    # ---------------------------------------------------------------- generate
    def generate(self, rng, tier):
        self.tier = tier
        cases = []
        thorough = tier == "thorough"
        # exhaustive adjacency
        top = 12 if thorough else 9
        for q0 in range(top):
            for q1 in range(top):
                if q0 != q1:
                    cases.append(dict(kind="adj", q0=q0, q1=q1))
        cases.append(dict(kind="adj", q0=3, q1=3))
        for _ in range(400 if thorough else 20):
            a, b = rng.randint(0, 60), rng.randint(0, 60)
            if a != b:
                cases.append(dict(kind="adj", q0=a, q1=b))
        # analyzer on its own
        for _ in range(3000 if thorough else 150):
            nq = rng.randint(2, 6)
            c = rand_circuit(rng, nq, rng.randint(0, 12), True, w1=0.3)
            c["kind"] = "ana"
            if rng.random() < 0.2:
                c["gates"].insert(rng.randint(0, len(c["gates"])), G("barrier", rng.sample(range(nq), rng.randint(1, nq))))
            cases.append(c)
        # small circuits the oracle can afford (few entangling gates)
        for k in range(1500 if thorough else 45):
            nq = rng.choice([1, 2, 2, 3, 3, 3, 4] if thorough else [1, 2, 2, 3, 3, 3])
            ps = k % 2 == 0
            ng = rng.randint(1, 8)
            c = rand_circuit(rng, nq, ng, ps, w1=0.7 if not ps else 0.55, allow3=ps)
            cases.append(c)
        for _ in range(200 if thorough else 8):
            cases.append(f2_shape(rng))
        for _ in range(400 if thorough else 24):
            cases.append(late_three(rng))
        # structural stream: bigger programs
        for k in range(5000 if thorough else 220):
            nq = rng.randint(1, 5 if thorough else 4)
            ps = rng.random() < 0.6
            cases.append(rand_circuit(rng, nq, rng.randint(0, 10), ps, w1=rng.choice([0.2, 0.5]), allow3=ps and rng.random() < 0.8))
        for _ in range(1500 if thorough else 90):
            cases.append(malformed(rng))
        for _ in range(300 if thorough else 16):
            cases.append(multireg(rng))
        # API form of the call: positional flag / the documented default (False) / keyword
        for c in cases:
            if c["kind"] == "conv":
                c["form"] = rng.choice([0, 0, 1, 2])
        # things that are not a qiskit circuit must be refused, not converted into something
        for what in ("lw_circuit", "none", "list", "instruction"):
            cases.append(dict(kind="badarg", what=what, ps=rng.random() < 0.5))
        return cases

    # -------------------------------------------------------------------- impl
    def impl(self, c):
        k = c["kind"]
        if k == "adj":
            try:
                a, b, sw = with_timeout(lambda: convert_two_qubits_to_adjacent(c["q0"], c["q1"]), 0.3)
            except Hang:
                return {"hang": True}
            return {"pair": [a, b], "swaps": [list(s) for s in sw]}
        if k == "badarg":
            arg = {"lw_circuit": lambda: lw.Circuit(4), "none": lambda: None, "list": lambda: [("h", 0)],
                   "instruction": lambda: QuantumCircuit(2).to_instruction()}[c["what"]]()
            try:
                r = with_timeout(lambda: qiskit_converter(arg, c["ps"]), 5)
                return {"ok": type(r).__name__}
            except Hang:
                return {"err": "Hang"}
            except Exception as e:  # noqa: BLE001
                return {"err": type(e).__name__}
        qc = build_qc(c)
        if k == "ana":
            flags, qs = post_selection_analyzer(qc)
            return {"flags": [bool(f) for f in flags], "qubits": sorted(int(q) for q in qs)}
        before = triples(qc)
        form = c.get("form", 0)

        def call():
            if form == 1 and not c["ps"]:
                return qiskit_converter(qc)                      # documented default: no post-selection
            if form == 2:
                return qiskit_converter(circuit=qc, allow_post_selection=c["ps"])
            return qiskit_converter(qc, c["ps"])
        try:
            circ, ps = with_timeout(call, 5)
            out = {"ok": circuit_obs(circ, ps)} if isinstance(circ, lw.Circuit) else {"err": f"returned {type(circ).__name__}"}
        except Hang:
            out = {"err": "Hang"}
        except Exception as e:  # noqa: BLE001
            out = {"err": type(e).__name__}
        out["hist"] = self._history(c, qc, out, before)
        if "ok" in out:
            # the returned objects are the caller's: editing them must not reach any later conversion
            try:
                circ.ps(0, 0.7)
                if circ.n_modes >= 2:
                    circ.bs(0)
                if ps is not None:
                    ps.add((999,), 0)
            except Exception as e:  # noqa: BLE001
                out["hist"] = out["hist"] or f"editing the returned circuit raised {type(e).__name__}: {e}"
        return out

    def _history(self, c, qc, fresh, before):
        """One long-lived QiskitConverter object, reconfigured by attribute assignment and re-used for every case
        (after conversions that succeeded, were refused or crashed): it must return what a fresh conversion returns,
        and what it returned earlier must not change."""
        msgs = []
        if triples(qc) != before:
            msgs.append("the qiskit circuit was modified by the conversion")
        conv = getattr(self, "_shared", None)
        if conv is None:
            conv = self._shared = QiskitConverter()
            self._prev = None
        conv.allow_post_selection = c["ps"]
        try:
            circ2, ps2 = with_timeout(lambda: conv.convert(qc), 5)
            again = {"ok": circuit_obs(circ2, ps2)} if isinstance(circ2, lw.Circuit) else {"err": f"returned {type(circ2).__name__}"}
        except Hang:
            circ2, again = None, {"err": "Hang"}
        except Exception as e:  # noqa: BLE001
            circ2, again = None, {"err": type(e).__name__}
        d = core.approx_equal({k_: v for k_, v in fresh.items() if k_ != "hist"}, again)
        if d:
            msgs.append(f"a re-used QiskitConverter object gives a different result than a fresh conversion: {d}")
        if self._prev is not None:
            pc, pps, pobs = self._prev
            d = core.approx_equal(circuit_obs(pc, pps), pobs)
            if d:
                msgs.append(f"the result of the previous conversion changed during this one: {d}")
        self._prev = (circ2, ps2, again["ok"]) if "ok" in again else None
        return "; ".join(msgs) or None

    # ------------------------------------------------------------------- model
    def coq_header(self):
        return "From Coq Require Import ZArith List Bool.\nFrom LW Require Import Base.Sx Model.Convert Exec.RunC12.\n"

    def _gs(self, c):
        qc = build_qc(c)
        return clist(f"({cn(n)}, {clist(cn(q) for q in qs)}, {cb(p)})" for n, qs, p in triples(qc))

    def coq_expr(self, c):
        k = c["kind"]
        if k == "adj":
            return f"run_adjacent {cn(c['q0'])} {cn(c['q1'])}"
        if k == "ana":
            return f"run_analyze {self._gs(c)}"
        if k == "badarg":
            return "SL nil"
        return f"run_convert {cb(c['ps'])} {self._gs(c)}"

    def decode(self, c, sx):
        k = c["kind"]
        if k == "adj":
            if sx == []:
                return {"hang": True}
            return {"pair": [sx[0], sx[1]], "swaps": sx[2]}
        if k == "ana":
            return {"flags": [bool(b) for b in sx[0]], "qubits": sorted(sx[1])}
        if k == "badarg":
            return None
        r = decode_res(sx)
        if "err" in r:
            return {"err": "Hang" if r["err"] == "OtherError" else r["err"]}
        ops, rules = r["ok"]
        rules = rules[0] if rules else None
        circ, ps = replay(c, ops, rules)
        return {"ok": circuit_obs(circ, ps)}

    def compare(self, c, a, b):
        if c["kind"] == "badarg":
            return None
        if isinstance(a, dict) and "hist" in a:
            a = {k_: v for k_, v in a.items() if k_ != "hist"}
        return core.approx_equal(a, b)

    # ------------------------------------------------------------------ oracle
    def oracle(self, c, obs):
        k = c["kind"]
        if k == "badarg":
            return None if "err" in obs and obs["err"] != "Hang" else f"qiskit_converter({c['what']}) did not refuse: {obs}"
        if k == "conv" and obs.get("hist"):
            return obs["hist"]
        if k == "adj":
            q0, q1 = c["q0"], c["q1"]
            if q0 == q1:
                return None
            if "pair" not in obs:
                return f"convert_two_qubits_to_adjacent({q0},{q1}) does not terminate"
            a, b = obs["pair"]
            if abs(a - b) != 1 or (q0 < q1) != (a < b):
                return f"adjacent({q0},{q1}) = ({a},{b}) is not an adjacent pair in the same order"
            pos = {a: a, b: b}
            for x, y in obs["swaps"]:
                for key in pos:
                    pos[key] = y if pos[key] == x else x if pos[key] == y else pos[key]
            if (pos[a], pos[b]) != (q0, q1):
                return f"swaps {obs['swaps']} do not carry ({a},{b}) to ({q0},{q1})"
            return None
        if k == "ana":
            # soundness condition only (a more conservative analyser would still satisfy the property)
            qc = build_qc(c)
            tr = triples(qc)
            multi = [qs if len(qs) >= 2 else None for _, qs, _ in tr]
            if len(obs["flags"]) != len(tr):
                return "post_selection_analyzer returns a flag list of the wrong length"
            for i, qs in enumerate(multi):
                if qs is None or not obs["flags"][i]:
                    continue
                later = {q for m in multi[i + 1:] if m for q in m}
                if sum(q in later for q in qs) >= 2:
                    return (f"instruction {i} on qubits {qs} is marked post-selectable although "
                            f"{[q for q in qs if q in later]} are used by later multi-qubit gates")
                if any(q not in obs["qubits"] for q in qs):
                    return f"post-selected instruction {i} has a qubit without rule"
            return None
        if "ok" not in obs:
            return None       # refusing is always allowed
        if any(g.get("c") for g in c["gates"]):
            return None       # custom instruction: no qiskit meaning to compare with
        qc = build_qc(c)
        circ, ps = qiskit_converter(qc, c["ps"])
        # by now every case has been converted and every returned circuit has been edited in place: the same program
        # converted again must give the circuit it gave the first time
        d = core.approx_equal(circuit_obs(circ, ps), obs["ok"])
        if d:
            return f"converting the same program again (after other conversions and in-place edits of their results) gives a different circuit: {d}"
        budget = 2e8 if self.tier == "thorough" else 1e8
        msg, ran = check_unitary(circ, ps, qc, c["nq"], budget)
        if ran:
            self.oracle_runs += 1
        else:
            self.oracle_skipped += 1
        return msg

    def nontrivial(self, c, obs):
        if c["kind"] == "adj":
            return abs(c["q0"] - c["q1"]) > 1
        if c["kind"] == "badarg":
            return False
        return any(len(g["q"]) >= 2 for g in c["gates"])

    def stats(self, cases, recs):
        from collections import Counter
        kinds = Counter(c["kind"] + ("/malformed" if c.get("malformed") else "") + ("/multireg" if c.get("regs") else "")
                        for c in cases)
        outcomes = Counter()
        gates = Counter()
        nqs = Counter()
        heralded = Counter()
        forms = Counter()
        for r in recs:
            c, io = r["case"], r["impl"]
            if c["kind"] != "conv" or not isinstance(io, dict):
                continue
            outcomes["ok" if "ok" in io else io.get("err", "?")] += 1
            forms[c.get("form", 0)] += 1
            nqs[c["nq"]] += 1
            for g in c["gates"]:
                gates[g["n"]] += 1
            if "ok" in io:
                heralded[sum(b for _, b in io["ok"]["heralds"]["input"]) // 2] += 1
        return {"kinds": dict(kinds), "conv_outcomes": dict(outcomes), "gate_histogram": dict(gates),
                "qubits": dict(nqs), "heralded_gates_per_converted_circuit": dict(heralded),
                "call_forms(0 positional,1 default,2 keyword)": dict(forms), "oracle_evaluated": self.oracle_runs, "oracle_skipped_cost": self.oracle_skipped}

    def signature(self, c, rec):
        return None

    def shrink(self, c):
        if c["kind"] in ("adj", "badarg"):
            return
        for i in range(len(c["gates"])):
            d = copy.deepcopy(c)
            del d["gates"][i]
            d.pop("_corpus", None)
            yield d
        if c.get("regs"):
            d = copy.deepcopy(c)
            d.pop("regs")
            yield d


PROP = C12()

if __name__ == "__main__":
    sys.exit(core.main(PROP))
