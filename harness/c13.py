"""C13 — the qubit gate library implements the gates it names.

Correspondence: every gate object of lightworks.qubit (all target options; rotations at a few
hundred angles; SWAP on many mode tuples) is compared with the Coq model of its constructor
(Model/Gates.v, run through the Circuit/World model): n_modes, input_modes, heralds (with key
order) and U_full entrywise at 1e-12.  The model's numbers are exact elements of the number
fields of Base/NumField.v; Coq prints their rational coordinates and this module evaluates them.

Oracle (independent of the model, on the implementation): heralded amplitudes from
lightworks.emulator.Simulator on the dual-rail basis against the textbook matrix written here in
numpy: one common scalar k, |k|^2 = 1, 1/9, 1/16, 1/72, and zero leakage for the heralded gates.
"""
from __future__ import annotations

import itertools
import math
import sys
from collections import Counter
from fractions import Fraction

import numpy as np

import core
from core import clist, cn, cz

import lightworks as lw
from lightworks import emulator, qubit

SQ = ["I", "H", "X", "Y", "Z", "S", "Sadj", "T", "Tadj", "SX"]
FIXED = {n: i for i, n in enumerate(SQ)}
FIXED.update({"CZ": 10, "CNOT": 11, "CZ_Heralded": 12, "CNOT_Heralded": 13, "CCZ": 14, "CCNOT": 15})
NTARGETS = {"CNOT": 2, "CNOT_Heralded": 2, "CCNOT": 3}
DEFAULT_TARGET = {"CNOT": 1, "CNOT_Heralded": 1, "CCNOT": 2}       # as documented in the constructors' signatures
ROT = {"P": 0, "Rx": 1, "Ry": 2, "Rz": 3}
NQ = {"CZ": 2, "CNOT": 2, "CZ_Heralded": 2, "CNOT_Heralded": 2, "CCZ": 3, "CCNOT": 3}
K2 = {"CZ": 1 / 9, "CNOT": 1 / 9, "CZ_Heralded": 1 / 16, "CNOT_Heralded": 1 / 16, "CCZ": 1 / 72, "CCNOT": 1 / 72}
BAD_TARGET_SENTINEL = 1000     # how a non-int target_qubit is presented to the model (an int outside every range)

UTOL = 1e-12

# generators of the two towers of Base/NumField.v
_GA = (math.sqrt(2), math.sqrt(3), math.sqrt(7))
_GB = (math.sqrt(2), 2 ** 0.25, math.sqrt(3 / math.sqrt(2) - 2))


def _basis(g):
    g1, g2, g3 = g
    return [1.0, g1, g2, g1 * g2, g3, g1 * g3, g2 * g3, g1 * g2 * g3]


BASIS = {"A": _basis(_GA), "B": _basis(_GB), "Q": [1.0]}


def ev(coords, tower):
    """rational coordinates [[num, den], ...] over the tower basis -> float"""
    b = BASIS[tower]
    assert len(coords) == len(b), (len(coords), tower)
    return math.fsum((n / d) * x for (n, d), x in zip(coords, b))


# ------------------------------------------------------------------ textbook matrices (numpy)
def _bits(n):
    return list(itertools.product([0, 1], repeat=n))


def _perm_matrix(n, f):
    """M[b', b] = 1 iff b' = f(b)"""
    bs = _bits(n)
    M = np.zeros((2 ** n, 2 ** n), dtype=complex)
    for j, b in enumerate(bs):
        M[bs.index(tuple(f(list(b)))), j] = 1
    return M


def textbook(name, tq=None, theta=None):
    s2 = 1 / math.sqrt(2)
    X = np.array([[0, 1], [1, 0]], dtype=complex)
    Y = np.array([[0, -1j], [1j, 0]])
    Z = np.array([[1, 0], [0, -1]], dtype=complex)
    Id = np.eye(2, dtype=complex)
    if name == "I":
        return Id
    if name == "X":
        return X
    if name == "Y":
        return Y
    if name == "Z":
        return Z
    if name == "H":
        return (X + Z) * s2
    if name == "S":
        return np.diag([1, 1j])
    if name == "Sadj":
        return np.diag([1, -1j])
    if name == "T":
        return np.diag([1, (1 + 1j) * s2])
    if name == "Tadj":
        return np.diag([1, (1 - 1j) * s2])
    if name == "SX":
        return ((1 + 1j) * Id + (1 - 1j) * X) / 2
    if name == "P":
        return np.diag([1, complex(math.cos(theta), math.sin(theta))])
    if name in ("Rx", "Ry", "Rz"):
        A = {"Rx": X, "Ry": Y, "Rz": Z}[name]
        return math.cos(theta / 2) * Id - 1j * math.sin(theta / 2) * A
    if name in ("CZ", "CZ_Heralded"):
        return np.diag([1, 1, 1, -1]).astype(complex)
    if name in ("CNOT", "CNOT_Heralded"):
        def f(b):
            if b[1 - tq]:
                b[tq] ^= 1
            return b
        return _perm_matrix(2, f)
    if name == "SWAP":
        return _perm_matrix(2, lambda b: [b[1], b[0]])
    if name == "CCZ":
        return np.diag([1] * 7 + [-1]).astype(complex)
    if name == "CCNOT":
        def f(b):
            if all(b[q] for q in range(3) if q != tq):
                b[tq] ^= 1
            return b
        return _perm_matrix(3, f)
    raise KeyError(name)


def dual_rail(b):
    out = []
    for x in b:
        out += [0, 1] if x else [1, 0]
    return out


def _pyval(x):
    """JSON encoding of a SWAP tuple entry -> the Python object handed to lightworks"""
    if isinstance(x, list):
        tag, v = x
        return {"float": float, "str": str, "bool": bool, "none": lambda _: None}[tag](v)
    return x


class C13:
    ID = "C13"
    RULE = ("every gate class of lightworks.qubit: the 10 fixed single-qubit gates, CZ, CZ_Heralded, CCZ, CNOT/CNOT_Heralded "
            "(targets 0,1) and CCNOT (targets 0,1,2) plus invalid targets; P/Rx/Ry/Rz at >= 200 angles each tier "
            "(0, +-pi/2, +-pi, 2pi, 4pi, tiny, large, negative, random); SWAP on distinct / overlapping / identical / negative "
            "mode tuples up to mode 9 and malformed tuples (wrong length, float/str/bool/None entries). "
            "Target gates also built with the documented default target and with a positional argument; rotation angles also as "
            "odd/even multiples of pi up to 8 pi with 1e-9 neighbours, Python ints and numpy scalars; SWAP tuples also as lists. "
            "History (oracle): the gate object is edited in place (and the array it handed out overwritten) before a second gate "
            "with the same arguments is built and compared with the first observation. "
            "Non-trivial = a multi-qubit gate, a rotation whose angle is not a multiple of pi/2, or a SWAP that compiles; "
            "distinct = distinct JSON")
    CHUNK = 40
    TRUSTED = ["numpy cos/sin at the harness (the rotation amplitudes handed to the model as exact binary rationals) vs "
               "numpy cos/sin/exp inside lightworks: agreement is checked at 1e-12",
               "float evaluation of tower elements from their exact rational coordinates (math.sqrt, fsum)",
               "lightworks.emulator.Simulator computes the heralded Fock amplitude of U_full (property C03) - used by the oracle only"]
    ASSUMPTIONS = ["target_qubit is a Python int in the model; any other object is presented to the model as an out-of-range int "
                   "(both are 'not in [0, 1(, 2)]' for the constructor)",
                   "SWAP tuple entries are Python ints or non-ints (float/str/bool/None); tuples are given as lists"]

    # ---------------------------------------------------------------- generate
    def generate(self, rng, tier):
        cases = []
        for name in FIXED:
            if name in NTARGETS:
                for tq in range(NTARGETS[name]):
                    cases.append(dict(kind="gate", name=name, tq=tq))
                for tq in [-1, NTARGETS[name], NTARGETS[name] + 1, 7, -2, ["str", "a"], ["none", 0], ["float", 0.5]]:
                    cases.append(dict(kind="gate", name=name, tq=tq))
                # API forms: the documented default target (no argument) and the positional argument
                cases.append(dict(kind="gate", name=name, tq=DEFAULT_TARGET[name], form="default"))
                for tq in range(NTARGETS[name]):
                    cases.append(dict(kind="gate", name=name, tq=tq, form="positional"))
                cases.append(dict(kind="gate", name=name, tq=NTARGETS[name], form="positional"))
            else:
                cases.append(dict(kind="gate", name=name, tq=None))
        # rotations
        pi = math.pi
        special = [0.0, pi, -pi, 2 * pi, -2 * pi, pi / 2, -pi / 2, 3 * pi / 2, 4 * pi, pi / 4, -pi / 4, pi / 3, 1e-9, -1e-9,
                   1e-6, 1e-3, -1e-3, 1.0, -1.0, 100.0, -250.5, 6.283185307179586, 3.141592653589793, 1e-12, 12345.678]
        # boundary angles the random stream never draws: odd and even multiples of pi beyond 2 pi (half-angle sign),
        # their 1e-9 neighbourhoods, Python ints, numpy scalars
        special += [3 * pi, -3 * pi, 5 * pi, -5 * pi, 6 * pi, 7 * pi, 8 * pi, pi + 1e-9, pi - 1e-9, -pi + 1e-9, 3 * pi - 1e-9,
                    2 * pi + 1e-9, -2 * pi - 1e-9, 0, 1, 2, 3, -1, -4, 7, 13]
        nrand = 175 if tier == "quick" else 1500
        for name in ROT:
            for th in special:
                cases.append(dict(kind="rot", name=name, theta=th))
            for th, tag in ((0.7, "float64"), (-2.5, "float64"), (pi, "float64"), (3, "int64"), (0, "int64")):
                cases.append(dict(kind="rot", name=name, theta=th, np=tag))
            for _ in range(nrand):
                r = rng.random()
                if r < 0.6:
                    th = rng.uniform(-2 * pi, 2 * pi)
                elif r < 0.8:
                    th = rng.uniform(-50, 50)
                elif r < 0.9:
                    th = rng.choice([-1, 1]) * 10 ** rng.uniform(-8, -1)
                else:
                    th = rng.choice([-1, 1]) * rng.randint(0, 16) * pi / 8
                cases.append(dict(kind="rot", name=name, theta=th))
        # SWAP
        nsw = 60 if tier == "quick" else 1200
        for a0, a1, b0, b1 in [(0, 1, 2, 3), (2, 3, 0, 1), (0, 2, 1, 3), (3, 0, 1, 2), (0, 1, 0, 1), (0, 1, 1, 0),
                               (0, 0, 1, 2), (0, 1, 1, 2), (5, 1, 2, 9), (1, 2, 3, 4), (-1, 0, 1, 2), (-1, -2, -3, -4),
                               (0, 1, 2, 2), (4, 5, 6, 7)]:
            cases.append(dict(kind="swap", q1=[a0, a1], q2=[b0, b1]))
        for _ in range(nsw):
            r = rng.random()
            if r < 0.6:
                m = rng.sample(range(rng.randint(4, 10)), 4)
                cases.append(dict(kind="swap", q1=m[:2], q2=m[2:], lists=rng.random() < 0.3))
            elif r < 0.75:
                m = [rng.randint(-1, 5) for _ in range(4)]
                cases.append(dict(kind="swap", q1=m[:2], q2=m[2:]))
            else:
                def ent():
                    t = rng.random()
                    if t < 0.55:
                        return rng.randint(0, 6)
                    return rng.choice([["float", 1.0], ["float", 2.5], ["str", "1"], ["bool", 1], ["bool", 0], ["none", 0]])
                l1 = rng.choice([2, 2, 2, 1, 3, 0])
                l2 = rng.choice([2, 2, 2, 1, 3, 0])
                cases.append(dict(kind="swap", q1=[ent() for _ in range(l1)], q2=[ent() for _ in range(l2)]))
        return cases

    # -------------------------------------------------------------------- impl
    def _make(self, c):
        k = c["kind"]
        if k == "gate":
            cls = getattr(qubit, c["name"])
            if c["tq"] is None or c.get("form") == "default":
                return cls()
            if c.get("form") == "positional":
                return cls(_pyval(c["tq"]))
            return cls(target_qubit=_pyval(c["tq"]))
        if k == "rot":
            th = c["theta"]
            if c.get("np"):
                th = getattr(np, c["np"])(th)
            return getattr(qubit, c["name"])(th)
        if k == "swap":
            seq = list if c.get("lists") else tuple
            return qubit.SWAP(seq(_pyval(x) for x in c["q1"]), seq(_pyval(x) for x in c["q2"]))
        raise KeyError(k)

    def impl(self, c):
        def run():
            g = self._make(c)
            u = g.U_full
            h = g.heralds
            return [g.n_modes, g.input_modes, [[a, b] for a, b in h["input"].items()],
                    [[a, b] for a, b in h["output"].items()], int(u.shape[0]),
                    [[[float(x.real), float(x.imag)] for x in row] for row in u]]
        return core.guarded(run)

    # ------------------------------------------------------------------- model
    def coq_header(self):
        return "From Coq Require Import ZArith List Bool.\nFrom LW Require Import Base.Sx Exec.RunC13.\n"

    def coq_expr(self, c):
        k = c["kind"]
        if k == "gate":
            tq = c["tq"]
            if tq is None:
                tq = 0
            elif isinstance(tq, list):
                tq = BAD_TARGET_SENTINEL
            return f"run_gate {cn(FIXED[c['name']])} {cz(tq)}"
        if k == "rot":
            th = float(getattr(np, c["np"])(c["theta"])) if c.get("np") else c["theta"]
            a = th if c["name"] == "P" else th / 2
            cc, ss = Fraction(float(np.cos(a))), Fraction(float(np.sin(a)))
            return (f"run_rot {cn(ROT[c['name']])} {cz(cc.numerator)} {cz(cc.denominator)} "
                    f"{cz(ss.numerator)} {cz(ss.denominator)}")
        if k == "swap":
            def ent(x):
                return "None" if (isinstance(x, list) or isinstance(x, bool)) else f"(Some {cz(x)})"
            return f"run_swap {clist(ent(x) for x in c['q1'])} {clist(ent(x) for x in c['q2'])}"
        raise KeyError(k)

    def _tower(self, c):
        if c["kind"] == "gate":
            return "B" if "Heralded" in c["name"] else "A"
        return "Q"

    def decode(self, c, sx):
        tw = self._tower(c)

        def f(p):
            n, nin, hin, hout, dim, U = p
            return [n, nin, hin, hout, dim, [[[ev(z[0], tw), ev(z[1], tw)] for z in row] for row in U]]
        return core.decode_res(sx, f)

    def compare(self, c, a, b):
        return core.approx_equal(a, b, tol=UTOL)

    # ------------------------------------------------------------------ oracle
    def oracle(self, c, obs):
        k = c["kind"]
        if k == "gate" and c["name"] in NTARGETS:
            tq = c["tq"]
            valid = isinstance(tq, int) and 0 <= tq < NTARGETS[c["name"]]
            if not valid:
                if obs.get("err") != "ValueError":
                    return f"{c['name']}(target_qubit={tq!r}) gave {obs}, expected ValueError"
                return None
        if k == "swap":
            q1 = [_pyval(x) for x in c["q1"]]
            q2 = [_pyval(x) for x in c["q2"]]
            if len(q1) != 2 or len(q2) != 2:
                return None if obs.get("err") == "ValueError" else f"SWAP with a tuple of length != 2 gave {obs.get('err', 'a circuit')}"
            if any(not isinstance(m, int) or isinstance(m, bool) for m in q1 + q2):
                return None if obs.get("err") == "TypeError" else f"SWAP with a non-integer mode gave {obs.get('err', 'a circuit')}"
            if len(set(q1 + q2)) != 4 or min(q1 + q2) < 0:
                return None          # overlapping / negative modes: not claimed by the property (correspondence only)
        if "ok" not in obs:
            return f"valid gate construction raised {obs.get('err')}"
        g = self._make(c)
        sim = emulator.Simulator(g)
        if k == "swap":
            (a0, a1), (b0, b1) = c["q1"], c["q2"]
            n = g.n_modes

            def st(p, q):
                s = [0] * n
                s[(a0, a1)[p]] += 1
                s[(b0, b1)[q]] += 1
                return lw.State(s)
            states = [st(p, q) for p, q in _bits(2)]
            M, nq, k2 = textbook("SWAP"), 2, 1.0
        else:
            nq = NQ.get(c["name"], 1)
            states = [lw.State(dual_rail(b)) for b in _bits(nq)]
            th = c.get("theta")
            if th is not None and c.get("np"):
                th = float(getattr(np, c["np"])(th))
            M = textbook(c["name"], c.get("tq"), th)
            k2 = K2.get(c["name"], 1.0)
        arr = np.array(sim.simulate(states, states).array)          # arr[in, out]
        A = arr.T                                                   # A[b', b] = <b'| gate |b>
        if not np.all(np.isfinite(A)):
            return f"{c.get('name', 'SWAP')}: amplitudes are not finite numbers"
        # one common scalar: fix it on the largest entry of the textbook matrix
        idx = np.unravel_index(np.argmax(np.abs(M)), M.shape)
        kk = A[idx] / M[idx]
        nm = c.get("name", "SWAP")
        if abs(abs(kk) ** 2 - k2) > 1e-9:
            return f"{nm}: |k|^2 = {abs(kk) ** 2!r}, expected {k2!r}"
        d = np.max(np.abs(A - kk * M))
        if d > 1e-9:
            return (f"{nm}(tq={c.get('tq')}, theta={c.get('theta')}, q1={c.get('q1')}, q2={c.get('q2')}): dual-rail amplitudes are not k * named matrix "
                    f"(k={kk:.6g}, max deviation {d:.3g})")
        if k == "gate" and "Heralded" in c["name"]:
            res = sim.simulate(states)                               # every 2-photon output with the heralds satisfied
            dr = {tuple(dual_rail(b)) for b in _bits(2)}
            for j, o in enumerate(res.outputs):
                if tuple(o) in dr:
                    continue
                leak = np.max(np.abs(np.array(res.array)[:, j]))
                if leak > 1e-9:
                    return f"{c['name']}: accepted output {list(o)} outside the qubit subspace has amplitude {leak:.3g}"
            if len(res.outputs) != 10:
                return f"{c['name']}: expected 10 two-photon outputs on 4 modes, got {len(res.outputs)}"
        # history: the SAME gate object added twice to a larger circuit over overlapping neighbouring qubits (the first
        # addition's ancillas lie inside the span of the second): the gate object must be unchanged afterwards, and the
        # parent must equal the one built from two fresh gates
        if k == "gate" and g.input_modes >= 2:
            try:
                w = g.input_modes
                par = lw.Circuit(w + 2)
                par.add(g, 0)
                par.add(g, 2)
                ref = lw.Circuit(w + 2)
                ref.add(self._make(c), 0)
                ref.add(self._make(c), 2)
                ug = np.asarray(g.U_full)
                u0g = np.array([[complex(*z) for z in row] for row in obs["ok"][5]])
                if ug.shape != u0g.shape or np.max(np.abs(ug - u0g)) > UTOL or g.n_modes != obs["ok"][0]:
                    return f"{nm}(tq={c.get('tq')}): the gate object changed after it was added twice to a larger circuit"
                up, ur = np.asarray(par.U_full), np.asarray(ref.U_full)
                if up.shape != ur.shape or np.max(np.abs(up - ur)) > UTOL or par.heralds != ref.heralds:
                    return f"{nm}(tq={c.get('tq')}): adding one gate object twice differs from adding two fresh gates"
            except Exception as e:  # noqa: BLE001
                return f"{nm}(tq={c.get('tq')}): adding the gate twice to a larger circuit raised {type(e).__name__}: {e}"
        # history: a gate object that was edited in place (and the arrays it handed out) must not show up in the next
        # gate built with the same arguments (shared module-level instances, cached sub-circuits or matrices)
        try:
            u = g.U_full
            u[0, 0] = 99.0
            g.ps(0, 0.3)
            if g.n_modes >= 2:
                g.bs(0)
        except Exception as e:  # noqa: BLE001
            return f"editing the gate circuit in place raised {type(e).__name__}: {e}"
        g2 = self._make(c)
        u2 = np.asarray(g2.U_full)
        u0 = np.array([[complex(*z) for z in row] for row in obs["ok"][5]])
        if u2.shape != u0.shape or np.max(np.abs(u2 - u0)) > UTOL or g2.n_modes != obs["ok"][0] \
                or [[a, b] for a, b in g2.heralds["input"].items()] != obs["ok"][2]:
            return (f"{nm}(tq={c.get('tq')}, theta={c.get('theta')}): a gate built after an earlier gate object with the same arguments "
                    f"was edited in place differs from the first one")
        return None

    def nontrivial(self, c, obs):
        if "ok" not in obs:
            return False
        if c["kind"] == "gate":
            return c["name"] in NQ
        if c["kind"] == "rot":
            return abs(math.sin(2 * c["theta"])) > 1e-6
        return True

    def stats(self, cases, recs):
        kinds = Counter(c["kind"] + ":" + c.get("name", "SWAP") for c in cases)
        outc = Counter(("ok" if "ok" in r["impl"] else r["impl"].get("err", "?")) for r in recs if isinstance(r["impl"], dict))
        return {"cases_by_gate": dict(kinds), "outcomes": dict(outc)}

    def shrink(self, c):
        return []


PROP = C13()

if __name__ == "__main__":
    sys.exit(core.main(PROP))
