"""C18 — State values behave as immutable Fock states; herald bookkeeping round-trips."""
from __future__ import annotations

import copy
import math
import operator
import sys

import numpy as np

import core
from core import cb, clist, cn, copt, cz, decode_res, guarded

import lightworks as lw
from lightworks.emulator.state import AnnotatedState
from lightworks.emulator.utils.state_utils import fock_basis
from lightworks.sdk.utils.heralding_utils import (
    add_heralds_to_state,
    remove_heralds_from_state,
)
from lightworks.sdk.utils.conversion import db_loss_to_decimal, decimal_to_db_loss
from lightworks.sdk.utils.random_utils import process_random_seed


def _occ(rng, n, neg=False):
    lo = -2 if neg else 0
    return [rng.choice([0, 0, 1, 1, 2, 3, rng.randint(lo, 6)]) for _ in range(n)]


def _optidx(rng, n):
    return None if rng.random() < 0.25 else rng.randint(-n - 2, n + 2)


class C18:
    ID = "C18"
    RULE = ("generated occupation lists (len 0-7, occasionally negative entries), index/slice bounds in "
            "[-len-2,len+2], herald dictionaries with shuffled distinct keys (valid and out of range), "
            "label lists with shuffled duplicates, Fock basis sizes N<=5,n<=4, dB values, seeds; a case is "
            "non-trivial when it has >=2 modes and (for herald cases) >=1 herald; distinct = distinct canonical JSON. "
            "Oracle-only extensions: states built from tuples/iterators, every integer index and every slice form (open bounds, "
            "negative and non-unit steps) for State and AnnotatedState, operands and arguments left unchanged (+, merge, ==, +=, "
            "del, slice assignment, lists handed out), herald insertion/removal with State and list arguments in any key order "
            "and back, dB reference values (10 dB = 0.9) with int / -0.0 / boundary arguments, seeds 0 / numpy ints / integral "
            "floats / None with unrelated calls and the global numpy generator in between, invalid seeds through "
            "random_unitary and random_permutation")
    TRUSTED = ["dB conversions and random_unitary/permutation are checked by the Python oracle only (reals/scipy are not executable in the model)"]
    ASSUMPTIONS = ["occupations are Python ints (non-integers only reach State._validate, tested by the malformed stream)",
                   "State(list) aliasing of the caller's own list is outside the State API and not claimed"]

    # ---------------------------------------------------------------- generate
    def generate(self, rng, tier):
        n = 900 if tier == "quick" else 12000
        cases = []
        for k in range(n):
            r = k % 9
            if r in (0, 1):
                ln = rng.randint(0, 7)
                s = _occ(rng, ln, neg=rng.random() < 0.15)
                t = list(s) if rng.random() < 0.3 else _occ(rng, rng.choice([ln, ln, rng.randint(0, 7)]))
                u = _occ(rng, rng.choice([ln, rng.randint(0, 4)]))
                cases.append(dict(kind="state", s=s, t=t, u=u, i=rng.randint(-ln - 2, ln + 2),
                                  a=_optidx(rng, ln), b=_optidx(rng, ln)))
            elif r in (2, 3, 4):
                ln = rng.randint(0, 6)
                nh = rng.randint(0, 4)
                st = _occ(rng, ln)
                total = ln + nh
                if rng.random() < 0.85 or total == 0:
                    keys = rng.sample(range(total), nh) if total >= nh else []
                else:
                    keys = rng.sample(range(total + 3), min(nh, total + 3))
                her = [[k_, rng.randint(0, 3)] for k_ in keys]
                cases.append(dict(kind="herald", st=st, her=her, as_state=rng.random() < 0.5))
            elif r == 5:
                ln = rng.randint(0, 6)
                st = _occ(rng, ln)
                modes = [rng.randint(0, ln + 1) for _ in range(rng.randint(0, 3))]
                if rng.random() < 0.7 and ln:
                    modes = rng.sample(range(ln), min(len(modes), ln))
                cases.append(dict(kind="remove", st=st, modes=modes))
            elif r in (6, 7):
                ln = rng.randint(0, 5)
                a = [[rng.randint(0, 4) for _ in range(rng.choice([0, 0, 1, 2, 3]))] for _ in range(ln)]
                if rng.random() < 0.5:
                    b = [rng.sample(x, len(x)) for x in a]
                else:
                    lb = rng.choice([ln, ln, rng.randint(0, 5)])
                    b = [[rng.randint(0, 4) for _ in range(rng.choice([0, 1, 2]))] for _ in range(lb)]
                cases.append(dict(kind="annot", a=a, b=b, i=rng.randint(-ln - 1, ln + 1),
                                  sa=_optidx(rng, ln), sb=_optidx(rng, ln)))
            else:
                sub = k % 27
                if sub < 9:
                    cases.append(dict(kind="fock", N=rng.randint(1, 5), n=rng.randint(0, 4)))
                elif sub < 18:
                    cases.append(dict(kind="conv", x=rng.choice([0.0, 1e-9, 0.5, 3.0, 10.0, -3.0, rng.uniform(-40, 40), 0, 3, -10, 20,
                                                                 -0.0, 10 * math.log10(2)]),
                                      l=rng.choice([0.0, 0.5, 1 - 1e-9, rng.random(), 0, -0.0, 0.9, 1e-12, 0.75])))
                else:
                    cases.append(dict(kind="random", N=rng.randint(1, 6),
                                      seed=rng.choice([0, 0, 1, 2**31 - 1, rng.randint(0, 10**6), rng.randint(0, 10**6)]),
                                      bad=rng.choice([None, None, "x", 1.5, True, 2.0, False, -0.5, "list"]),
                                      other=rng.choice([None, 0, 1, rng.randint(0, 10**6)])))
        return cases

    # -------------------------------------------------------------------- impl
    def impl(self, c):
        k = c["kind"]
        if k == "state":
            s, t = lw.State(list(c["s"])), lw.State(list(c["t"]))
            sl = s[slice(c["a"], c["b"])]
            assert isinstance(sl, lw.State)
            return [s == t, s.n_photons, s.n_modes, (s + t).s,
                    guarded(lambda: s.merge(t).s), guarded(lambda: s[c["i"]]), sl.s,
                    guarded(lambda: (s._validate(), [])[1])]
        if k == "herald":
            her = {a: b for a, b in c["her"]}
            st = lw.State(list(c["st"])) if c["as_state"] else list(c["st"])
            added = guarded(lambda: list(add_heralds_to_state(st, her)))
            out = [added]
            if "ok" in added:
                out.append(guarded(lambda: list(remove_heralds_from_state(added["ok"], list(her.keys())))))
            else:
                out.append([])
            return out
        if k == "remove":
            return guarded(lambda: list(remove_heralds_from_state(lw.State(list(c["st"])), list(c["modes"]))))
        if k == "annot":
            x = AnnotatedState([list(m) for m in c["a"]])
            y = AnnotatedState([list(m) for m in c["b"]])
            sl = x[slice(c["sa"], c["sb"])]
            assert isinstance(sl, AnnotatedState)
            return [x.s, x == y, x.n_photons, (x + y).s, guarded(lambda: x.merge(y).s),
                    guarded(lambda: list(x[c["i"]])), sl.s]
        if k == "fock":
            return [list(x) for x in fock_basis(c["N"], c["n"])]
        return None

    # ------------------------------------------------------------------- model
    def coq_header(self):
        return "From Coq Require Import ZArith List.\nFrom LW Require Import Base.Sx Model.State Exec.RunC18.\n"

    def coq_expr(self, c):
        k = c["kind"]
        zl = lambda l: clist(cz(x) for x in l)
        if k == "state":
            return f"run_state {zl(c['s'])} {zl(c['t'])} {cz(c['i'])} {copt(c['a'], cz)} {copt(c['b'], cz)}"
        if k == "herald":
            h = clist(f"({cn(a)}, {cz(b)})" for a, b in c["her"])
            return f"run_herald {zl(c['st'])} {h}"
        if k == "remove":
            return f"run_remove {zl(c['st'])} {clist(cn(m) for m in c['modes'])}"
        if k == "annot":
            zz = lambda a: clist(zl(m) for m in a)
            return f"run_annot {zz(c['a'])} {zz(c['b'])} {cz(c['i'])} {copt(c['sa'], cz)} {copt(c['sb'], cz)}"
        if k == "fock":
            return f"run_fock {cn(c['N'])} {cn(c['n'])}"
        return "SL nil"

    def decode(self, c, sx):
        k = c["kind"]
        if k == "state":
            return [bool(sx[0]), sx[1], sx[2], sx[3], decode_res(sx[4]), decode_res(sx[5]), sx[6],
                    decode_res(sx[7])]
        if k == "herald":
            added = decode_res(sx[0])
            return [added, decode_res(sx[1]) if "ok" in added else []]
        if k == "remove":
            return decode_res(sx)
        if k == "annot":
            return [sx[0], bool(sx[1]), sx[2], sx[3], decode_res(sx[4]), decode_res(sx[5]), sx[6]]
        if k == "fock":
            return sx
        return None

    # ------------------------------------------------------------------ oracle
    def oracle(self, c, obs):
        k = c["kind"]
        if k == "state":
            s, t, u = lw.State(list(c["s"])), lw.State(list(c["t"])), lw.State(list(c["u"]))
            if (s == t) != (c["s"] == c["t"]):
                return "State equality differs from equality of occupations"
            if s == t and hash(s) != hash(t):
                return "equal states hash differently"
            if (s + t) + u != s + (t + u):
                return "+ is not associative"
            if (s + t).n_photons != s.n_photons + t.n_photons or len(s + t) != len(s) + len(t):
                return "+ does not add photon/mode counts"
            if len(c["s"]) == len(c["t"]):
                if s.merge(t) != t.merge(s) or s.merge(t).s != [a + b for a, b in zip(c["s"], c["t"])]:
                    return "merge is not the commutative mode-wise sum"
                if len(c["u"]) == len(c["s"]) and s.merge(t).merge(u) != s.merge(t.merge(u)):
                    return "merge is not associative"
            if s[slice(c["a"], c["b"])].s != c["s"][slice(c["a"], c["b"])]:
                return "slice differs from list slice"
            # every slice form, also open bounds and negative steps (a reversed sub-state that includes mode 0)
            for x, y, st in ((None, None, -1), (c["a"], None, -1), (None, c["b"], -1), (c["a"], c["b"], -1), (None, None, -2),
                             (c["b"], c["a"], -1), (None, None, 2), (c["a"], c["b"], 2), (None, -len(c["s"]) - 1, -1)):
                got = s[slice(x, y, st)]
                if not isinstance(got, lw.State) or got.s != c["s"][slice(x, y, st)]:
                    return f"State[{x}:{y}:{st}] = {got.s if isinstance(got, lw.State) else got!r} differs from the list slice {c['s'][slice(x, y, st)]}"
            if s.n_photons != sum(c["s"]) or s.n_modes != len(c["s"]) or list(s) != c["s"]:
                return "counts/iteration inconsistent"
            if len(s) != len(c["s"]) or s.s != c["s"]:
                return "len()/.s inconsistent with the occupations"
            # equality is symmetric, and a state built from another iterable of the same occupations is the same value
            if (t == s) != (c["s"] == c["t"]) or (s != t) != (c["s"] != c["t"]):
                return "State equality is not symmetric / != is not the negation of =="
            for alt in (lw.State(tuple(c["s"])), lw.State(iter(list(c["s"]))), lw.State(list(c["s"]))[:], s + lw.State([])):
                if alt != s or s != alt or hash(alt) != hash(s) or alt.s != c["s"]:
                    return "a State built from the same occupations (tuple / iterator / full slice / + empty) is not equal to the State built from the list"
            if c["s"] != c["t"] and len({s, t}) != 2:
                return "different states collapse in a set"
            if len({s, lw.State(list(c["s"]))}) != 1:
                return "equal states do not collapse in a set"
            # integer indexing = list indexing, at every position
            n_ = len(c["s"])
            for i in range(-n_ - 1, n_ + 1):
                try:
                    got = s[i]
                except IndexError:
                    got = "IndexError"
                if got != (c["s"][i] if -n_ <= i < n_ else "IndexError"):
                    return f"State[{i}] = {got!r} differs from list indexing"
            # + and merge give the documented values (reference from the case)
            if (s + t).s != c["s"] + c["t"] or (t + s).s != c["t"] + c["s"]:
                return "+ is not the concatenation of the occupation lists"
            if (s + t + u).n_photons != sum(c["s"]) + sum(c["t"]) + sum(c["u"]):
                return "photon number of a concatenation is not the sum"
            if len(c["s"]) != len(c["t"]):
                try:
                    s.merge(t)
                    return "merge accepted states of different length"
                except ValueError:
                    pass
            # immutability through the API
            before = list(c["s"])
            h0, str0 = hash(s), str(s)
            x = s.s
            x.append(99)
            if x:
                x[0] = 7
            it = list(s)
            it.append(3)
            for f in (lambda: setattr(s, "s", [1]), lambda: s.__setitem__(0, 5), lambda: setattr(s, "n_modes", 9)):
                try:
                    f()
                    return "a State setter did not raise"
                except lw.sdk.utils.exceptions.StateError:
                    pass
            sl = s[0:len(before)]
            if s.s != before or sl.s != before or (hash(s), str(s)) != (h0, str0):
                return "State changed through its API"
            # ... nor through values derived from it, augmented assignment, deletion or slice assignment
            s_alias = s
            s_alias += t                      # no in-place concatenation: s itself must stay what it was
            der = [s + t, s[:], s[::-1]] + ([s.merge(t)] if len(c["s"]) == len(c["t"]) else [])
            for d in der:
                x = d.s
                x.append(5)
                if x:
                    x[0] = 9
            for f in (lambda: operator.setitem(s, slice(0, 1), [5]), lambda: operator.delitem(s, 0), lambda: delattr(s, "s"),
                      lambda: setattr(s, "n_photons", 3)):
                try:
                    f()
                except Exception:  # noqa: BLE001   (how it is refused is not claimed, only that nothing changes)
                    pass
            if s.s != before or list(s) != before or (hash(s), str(s)) != (h0, str0) or s.n_photons != sum(before):
                return "State changed by +=, by editing derived states, or by deletion / slice assignment"
            # the operands of ==, +, merge and the slices are left alone as well
            if t.s != c["t"] or u.s != c["u"] or t.n_photons != sum(c["t"]) or hash(t) != hash(lw.State(list(c["t"]))):
                return "an operand of + / merge / == was modified"
            if (s + t).s != c["s"] + c["t"]:
                return "+ gives a different value the second time"
            return None
        if k == "herald":
            her = {a: b for a, b in c["her"]}
            n = len(c["st"]) + len(her)
            if all(kk < n for kk in her):
                added, removed = obs
                if "ok" not in added:
                    return f"add_heralds_to_state rejected a valid herald dictionary: {added}"
                full = added["ok"]
                if len(full) != n or any(full[kk] != v for kk, v in her.items()):
                    return "heralds not placed on their modes"
                if [full[i] for i in range(n) if i not in her] != c["st"]:
                    return "state entries not kept in order off the herald modes"
                if removed != {"ok": c["st"]}:
                    return f"remove(add(s)) != s: {removed}"
                # reference laid out from the case alone
                exp_full, rest = [], list(c["st"])
                for i in range(n):
                    exp_full.append(her[i] if i in her else rest.pop(0))
                if full != exp_full:
                    return f"add_heralds_to_state = {full}, expected {exp_full}"
                for as_state in (False, True):
                    st = lw.State(list(c["st"])) if as_state else list(c["st"])
                    h2 = dict(her)
                    full2 = add_heralds_to_state(st, h2)
                    if list(full2) != exp_full:
                        return f"add_heralds_to_state with a {'State' if as_state else 'list'} argument gives {list(full2)}, expected {exp_full}"
                    if list(st) != c["st"] or h2 != her or list(h2) != list(her):
                        return "add_heralds_to_state modified its arguments"
                    if as_state:          # what is handed back must not be the State's own list
                        full2.append(9)
                        full2[0] = 7
                        if st.s != c["st"] or list(st) != c["st"]:
                            return "the list returned by add_heralds_to_state is the State's own storage"
                # removal: list or State, herald modes in any order, arguments left alone; and the way back
                for keys in (list(her), sorted(her), sorted(her, reverse=True)):
                    for as_state in (False, True):
                        form = lw.State(list(exp_full)) if as_state else list(exp_full)
                        k2 = list(keys)
                        back = remove_heralds_from_state(form, k2)
                        if list(back) != c["st"]:
                            return f"remove_heralds_from_state({exp_full}, {keys}) = {list(back)}, expected {c['st']}"
                        if list(form) != exp_full or k2 != keys:
                            return "remove_heralds_from_state modified its arguments"
                        if as_state:
                            back.append(3)
                            if form.s != exp_full:
                                return "the list returned by remove_heralds_from_state is the State's own storage"
                again = add_heralds_to_state(list(c["st"]), {kk: exp_full[kk] for kk in sorted(her, reverse=True)})
                if list(again) != exp_full:
                    return "add(remove(full)) != full"
            return None
        if k == "remove":
            modes = c["modes"]
            if len(set(modes)) == len(modes) and all(m < len(c["st"]) for m in modes):
                exp = [v for i, v in enumerate(c["st"]) if i not in modes]
                if obs != {"ok": exp}:
                    return "remove_heralds_from_state does not drop exactly the herald modes"
                lst, m2 = list(c["st"]), list(modes)
                if list(remove_heralds_from_state(lst, m2)) != exp:
                    return "remove_heralds_from_state on a list differs from the result on a State"
                if lst != c["st"] or m2 != modes:
                    return "remove_heralds_from_state modified its arguments"
            return None
        if k == "annot":
            a = [list(m) for m in c["a"]]
            x = AnnotatedState([list(m) for m in a])
            perm = AnnotatedState([list(reversed(m)) for m in a])
            if x != perm or hash(x) != hash(perm):
                return "label order is not irrelevant"
            y = AnnotatedState([list(m) for m in c["b"]])
            same = len(a) == len(c["b"]) and all(sorted(p) == sorted(q) for p, q in zip(a, c["b"]))
            if (x == y) != same:
                return "annotated equality is not multiset equality"
            if x == y and hash(x) != hash(y):
                return "equal annotated states hash differently"
            if x.n_photons != sum(len(m) for m in a) or x.n_modes != len(a):
                return "annotated counts wrong"
            if len(a) == len(c["b"]) and x.merge(y) != y.merge(x):
                return "annotated merge not commutative"
            if (y == x) != same or (x != y) == same:
                return "annotated equality is not symmetric / != is not its negation"
            sa_, sb_ = [sorted(m) for m in a], [sorted(m) for m in c["b"]]
            src = [list(m) for m in c["a"]]
            AnnotatedState(src)
            if src != c["a"]:
                return "constructing an AnnotatedState reordered the caller's label lists"
            if (x + y).s != sa_ + sb_ or (x + y).n_photons != x.n_photons + y.n_photons or len(x + y) != len(a) + len(c["b"]):
                return "annotated + is not the concatenation of the label multisets"
            if len(a) == len(c["b"]):
                if x.merge(y).s != [sorted(p + q_) for p, q_ in zip(a, c["b"])]:
                    return "annotated merge is not the mode-wise multiset union"
            else:
                try:
                    x.merge(y)
                    return "annotated merge accepted states of different length"
                except ValueError:
                    pass
            n_ = len(a)
            for i in range(-n_ - 1, n_ + 1):
                try:
                    got = x[i]
                except IndexError:
                    got = "IndexError"
                if got != (sa_[i] if -n_ <= i < n_ else "IndexError"):
                    return f"AnnotatedState[{i}] = {got!r} differs from list indexing"
            for p_, q_, st_ in ((c["sa"], c["sb"], None), (None, None, -1), (c["sa"], None, -1), (None, c["sb"], -1), (c["sa"], c["sb"], -1),
                                (None, None, 2), (None, None, -2), (c["sb"], c["sa"], -1), (None, -n_ - 1, -1)):
                got = x[slice(p_, q_, st_)]
                if not isinstance(got, AnnotatedState) or got.s != sa_[slice(p_, q_, st_)]:
                    return (f"AnnotatedState[{p_}:{q_}:{st_}] = {got.s if isinstance(got, AnnotatedState) else got!r} differs from the "
                            f"list slice {sa_[slice(p_, q_, st_)]}")
            if len(x) != n_ or [list(m) for m in x] != sa_:
                return "annotated len()/iteration inconsistent"
            # immutability, including through __getitem__ and iteration
            # (the reference value is built from the case itself, never from an object handed out by the
            #  state: an aliased inner list would change together with the state and hide the mutation)
            before = [sorted(m) for m in a]
            h0, str0, n0 = hash(x), str(x), x.n_photons
            if x.s != before:
                return f"AnnotatedState.s is not the sorted label lists: {x.s} vs {before}"
            for i in range(len(a)):
                x[i].append(77)
            for m in x:
                m.append(55)
            x.s.append([1])
            for m in x.s:          # inner label lists handed out by the getter
                m.append(33)
                m.reverse()
            got = x.s
            if got:
                got[0] = [8, 8]
                got[-1].clear()
            sl_ = x[0:len(a)]
            for m in sl_.s:
                m.append(44)
            if (hash(x), str(x), x.n_photons) != (h0, str0, n0):
                return "AnnotatedState hash/str/n_photons changed after editing lists obtained from it"
            for f in (lambda: setattr(x, "s", [[1]]), lambda: x.__setitem__(0, [5]), lambda: setattr(x, "n_modes", 9)):
                try:
                    f()
                    return "an AnnotatedState setter did not raise"
                except lw.emulator.utils.exceptions.AnnotatedStateError:
                    pass
            if x.s != before:
                return f"AnnotatedState changed through its API: {before} -> {x.s}"
            x_alias = x
            x_alias += y
            for d in [x + y, x[:], x[::-1]] + ([x.merge(y)] if len(a) == len(c["b"]) else []):
                for m in d.s:
                    m.append(66)
                for m in d:
                    m.append(66)
            if x.s != before or (hash(x), str(x), x.n_photons) != (h0, str0, n0):
                return "AnnotatedState changed by += or by editing states derived from it"
            if y.s != [sorted(m) for m in c["b"]]:
                return "an operand of annotated + / merge / == was modified"
            return None
        if k == "fock":
            N, n = c["N"], c["n"]
            fb = [tuple(x) for x in fock_basis(N, n)]
            if len(set(fb)) != len(fb) or any(len(x) != N or sum(x) != n or min(x) < 0 for x in fb):
                return "fock_basis has duplicates or wrong members"
            from math import comb
            if len(fb) != comb(N + n - 1, n):
                return "fock_basis incomplete"
            return None
        if k == "conv":
            x, l = c["x"], c["l"]
            d = db_loss_to_decimal(x)
            if not (0 <= d < 1 or (abs(x) > 150 and d == 1)):
                return f"db_loss_to_decimal({x}) = {d} outside [0,1)"
            if d < 1 and abs(decimal_to_db_loss(d) - abs(x)) > 1e-6 * max(1, abs(x)):
                return f"decimal_to_db_loss(db_loss_to_decimal({x})) = {decimal_to_db_loss(d)}"
            if abs(db_loss_to_decimal(decimal_to_db_loss(l)) - l) > 1e-9:
                return f"db_loss_to_decimal(decimal_to_db_loss({l})) != {l}"
            for bad in (-0.1, 1.0, 1.5, 1, 2, -1, -1e-12, 1 + 1e-12):
                try:
                    decimal_to_db_loss(bad)
                    return f"decimal_to_db_loss accepted {bad}"
                except ValueError:
                    pass
            # the unit itself: 10*log10 of the transmitted power fraction (reference computed from the case)
            if abs(d - (1 - 10 ** (-abs(x) / 10))) > 1e-9:
                return f"db_loss_to_decimal({x}) = {d}, expected {1 - 10 ** (-abs(x) / 10)}"
            if abs(db_loss_to_decimal(-x) - d) > 1e-12:
                return "db_loss_to_decimal depends on the sign of the dB value"
            back = decimal_to_db_loss(l)
            want = -10 * math.log10(1 - l)
            if not back >= 0 or abs(back - want) > 1e-9 * max(1.0, abs(want)):
                return f"decimal_to_db_loss({l}) = {back}, expected the positive value {want}"
            for known_db, known_dec in ((10, 0.9), (20, 0.99), (0, 0.0), (10 * math.log10(2), 0.5)):
                if abs(db_loss_to_decimal(known_db) - known_dec) > 1e-9 or abs(decimal_to_db_loss(known_dec) - known_db) > 1e-9:
                    return f"{known_db} dB is not a loss of {known_dec}"
            return None
        if k == "random":
            N, seed = c["N"], c["seed"]
            u1, u2 = lw.random_unitary(N, seed), lw.random_unitary(N, seed)
            if not np.array_equal(u1, u2):
                return "random_unitary not reproducible for a fixed seed"
            if u1.shape != (N, N) or not np.allclose(u1 @ u1.conj().T, np.eye(N), atol=1e-9):
                return "random_unitary not unitary"
            p1, p2 = lw.random_permutation(N, seed), lw.random_permutation(N, seed)
            if not np.array_equal(p1, p2):
                return "random_permutation not reproducible"
            if N >= 2 and not np.array_equal(lw.random_unitary(N, float(seed)), u1):
                return "an integral float seed does not give the matrix of the equal integer seed"
            if not (np.all((p1 == 0) | (p1 == 1)) and np.all(p1.sum(0) == 1) and np.all(p1.sum(1) == 1)):
                return "random_permutation not a permutation matrix"
            if p1.shape != (N, N):
                return "random_permutation has the wrong shape"
            if not np.array_equal(lw.random_permutation(N, float(seed)), p1):
                return "an integral float seed does not give the permutation of the equal integer seed"
            # a history: other seeds / unseeded calls / the global numpy generator in between do not matter
            other = c.get("other")
            lw.random_unitary(N + 1, other)
            lw.random_permutation(N, other)
            lw.random_unitary(N)
            np.random.seed(12345)
            np.random.random(3)
            if not np.array_equal(lw.random_unitary(N, seed=seed), u1) or not np.array_equal(lw.random_permutation(N, seed=seed), p1):
                return "seeded results depend on the calls made in between"
            if not np.array_equal(lw.random_unitary(N, np.int64(seed)), u1) or not np.array_equal(lw.random_permutation(N, np.int64(seed)), p1):
                return "a numpy integer seed does not give the result of the equal Python integer seed"
            for un in (lw.random_unitary(N), lw.random_unitary(N, None)):          # unseeded: still valid
                if un.shape != (N, N) or not np.allclose(un @ un.conj().T, np.eye(N), atol=1e-9):
                    return "unseeded random_unitary not unitary"
            pn = lw.random_permutation(N)
            if pn.shape != (N, N) or not (np.all((pn == 0) | (pn == 1)) and np.all(pn.sum(0) == 1) and np.all(pn.sum(1) == 1)):
                return "unseeded random_permutation not a permutation matrix"
            bad = c["bad"]
            if bad is not None:
                if bad == "list":
                    bad = [1]
                if bad == 2.0 and not isinstance(bad, bool):
                    if process_random_seed(bad) != 2:
                        return "integral float seed not accepted"
                    if N >= 2 and not np.array_equal(lw.random_unitary(N, bad), lw.random_unitary(N, 2)):
                        return "seed 2.0 does not give the matrix of seed 2"
                else:
                    for f in (process_random_seed, lambda b: lw.random_unitary(N, b), lambda b: lw.random_permutation(N, seed=b)):
                        try:
                            f(bad)
                            return f"seed {bad!r} accepted"
                        except TypeError:
                            pass
            return None
        return None

    def compare(self, c, a, b):
        if c["kind"] in ("conv", "random"):
            return None
        return core.approx_equal(a, b)

    def nontrivial(self, c, obs):
        k = c["kind"]
        if k == "state":
            return len(c["s"]) >= 2
        if k == "herald":
            return len(c["her"]) >= 1 and len(c["st"]) >= 1
        if k == "remove":
            return len(c["modes"]) >= 1
        if k == "annot":
            return sum(len(m) for m in c["a"]) >= 2
        return True

    def stats(self, cases, recs):
        from collections import Counter
        kinds = Counter(c["kind"] for c in cases)
        errs = Counter()
        for r in recs:
            s = str(r["impl"])
            for e in ("ValueError", "IndexError", "TypeError"):
                if e in s:
                    errs[e] += 1
        return {"kinds": dict(kinds), "cases_with_error_outcome": dict(errs)}

    def signature(self, c, rec):
        return None

    def shrink(self, c):
        for key in ("s", "t", "u", "st", "a", "b", "her", "modes"):
            if key in c and isinstance(c[key], list) and c[key]:
                for i in range(len(c[key])):
                    d = copy.deepcopy(c)
                    del d[key][i]
                    yield d


PROP = C18()

if __name__ == "__main__":
    sys.exit(core.main(PROP))
