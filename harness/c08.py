"""C08 — operations never modify their arguments; failed calls change nothing."""
from __future__ import annotations

import copy
import sys
from collections import Counter

import numpy as np

import core
import circgen as cg

import lightworks as lw
from lightworks import emulator

OBSERVERS = ("simulate", "sample", "analyze", "reck", "display", "convert", "tomo")


def _input_for(c, rng_seed):
    n = c.input_modes
    s = [0] * n
    if n:
        s[rng_seed % n] = 1
        if n > 1 and rng_seed % 3 == 0:
            s[(rng_seed // 3) % n] += 1
    return lw.State(s)


def _shared_gate_snapshot():
    from lightworks.qubit.converter import qiskit_convert as qc
    from lightworks.tomography import mappings
    out = {}
    for name, table in (("SINGLE", getattr(qc, "SINGLE_QUBIT_GATES_MAP", {})), ("TWO", getattr(qc, "TWO_QUBIT_GATES_MAP", {})),
                        ("THREE", getattr(qc, "THREE_QUBIT_GATES_MAP", {})),
                        ("MEAS", getattr(mappings, "MEASUREMENT_MAPPING", {})), ("INPUT", getattr(mappings, "INPUT_MAPPING", {}))):
        for k, v in table.items():
            objs = v if isinstance(v, (list, tuple)) else [v]
            for idx, g in enumerate(objs):
                if isinstance(g, lw.Circuit):
                    out[f"{name}:{k}:{idx}"] = (g.n_modes, g.input_modes, str(g.heralds), np.round(g.U_full, 12).tobytes())
    return out


def run_observer(pool, op):
    k, cid, seed = op[0], op[1], op[2]
    c = pool[cid]
    st = _input_for(c, seed)
    before_state = st.s
    if k == "simulate":
        emulator.Simulator(c).simulate(st)
    elif k == "sample":
        s = emulator.Sampler(c, st, backend=emulator.Backend("slos" if seed % 2 else "permanent"))
        s.probability_distribution  # noqa: B018
        s.sample_N_outputs(5, seed=seed)
    elif k == "analyze":
        emulator.Analyzer(c).analyze(st)
    elif k == "reck":
        lw.interferometers.Reck().map(c)
    elif k == "display":
        import matplotlib.pyplot as plt
        lw.Display(c, display_type="svg" if seed % 2 else "mpl", display_loss=bool(seed % 3))
        plt.close("all")
    elif k == "convert":
        from qiskit import QuantumCircuit
        q = QuantumCircuit(3)
        q.h(0); q.cx(0, 2); q.s(1); q.cz(1, 2)
        if seed % 2:
            q.ccz(0, 1, 2)
        lw.qubit.converter.qiskit_converter(q, allow_post_selection=bool(seed % 2))
    elif k == "tomo":
        from lightworks.tomography import StateTomography

        def experiment(circuits):
            res = []
            for cc in circuits:
                smp = emulator.Sampler(cc, lw.State([1, 0]))
                res.append(smp.sample_N_outputs(20, seed=seed))
            return res

        if c.input_modes == 2 and not c.heralds["input"]:
            StateTomography(1, c, experiment).process()
    if st.s != before_state:
        raise AssertionError("input State modified")


class C08:
    ID = "C08"
    RULE = ("random API histories over a pool of <= 8 circuits (tree programs with 20% malformed calls: out-of-range modes, invalid "
            "values, duplicate heralds, incomplete swaps, oversize additions; the same circuit reused as an argument several times, "
            "parents with ancillas inside spans) interleaved with observer calls (Simulator, Sampler, Analyzer, Reck().map, Display, "
            "qiskit converter, state tomography); after EVERY call the observable state of EVERY live object is compared with its state "
            "before the call (only the call's target may change; nothing if it raised) and with the model. Non-trivial = a history "
            "with >= 1 rejected call and >= 1 accepted add whose argument is used again afterwards; distinct = distinct history JSON")
    COQ_TARGETS = ["theories/Exec/RunCircuit.vo"]
    CHUNK = 40
    TRUSTED = ["Python floats vs exact rationals compared at 1e-9"]
    ASSUMPTIONS = ["shared Parameter objects are excepted by design (not generated here; see C10)"]

    def generate(self, rng, tier):
        n = 150 if tier == "quick" else 3000
        cases = []
        for i in range(n):
            prog = cg.gen_tree_program(rng, tier, bad=0.2 if i % 2 else 0.05)
            # reuse arguments: repeat some adds, edit subs after adding
            adds = [o for o in prog if o[0] == "add"]
            if adds and rng.random() < 0.7:
                a = rng.choice(adds)
                prog.append(list(a))
                prog.append(cg.gen_primitive(rng, a[2], 2))
                prog.append(list(a))
            ids = sorted({o[1] for o in prog if o[0] in ("new", "unitary")})
            k = rng.randint(0, 4)
            for _ in range(k):
                pos = rng.randint(1, len(prog))
                defined = [o[1] for o in prog[:pos] if o[0] in ("new", "unitary", "copy", "plus")]
                if defined:
                    kind = rng.choice(OBSERVERS if i % 5 == 0 else OBSERVERS[:5])
                    prog.insert(pos, [kind, rng.choice(defined), rng.randint(0, 99)])
            cases.append(dict(kind="history", prog=prog))
        return cases

    def impl(self, c):
        prog = c["prog"]
        pool = {}
        outcomes = []
        fail = None
        rejected = 0
        shared0 = _shared_gate_snapshot()
        for op in prog:
            before = {cid: cg.snapshot(x) for cid, x in pool.items()}
            if op[0] in OBSERVERS:
                try:
                    run_observer(pool, op)
                    out = {"ok": []}
                except AssertionError as e:
                    out = {"ok": []}
                    fail = fail or f"op {op}: {e}"
                except Exception as e:  # noqa: BLE001  (observer outcome is not part of this property)
                    out = {"obs_err": type(e).__name__}
                target = None
            else:
                try:
                    cg.apply_op(pool, op)
                    out = {"ok": []}
                except NotImplementedError:
                    out = {"err": "OtherError"}
                except Exception as e:  # noqa: BLE001
                    out = {"err": type(e).__name__}
                outcomes.append(out)
                target = op[1] if "ok" in out else None
                if "err" in out:
                    rejected += 1
            if fail is None:
                for cid, snap in before.items():
                    if cid == target:
                        continue
                    after = cg.snapshot(pool[cid])
                    d = core.approx_equal(snap, after, tol=1e-12)
                    if d:
                        what = "a call that raised" if "err" in out else ("an observer call" if op[0] in OBSERVERS else "a call")
                        fail = f"op {op} ({what}) changed circuit {cid} which is not its target: {d}"
                        break
        if fail is None and _shared_gate_snapshot() != shared0:
            fail = "a module-level shared gate instance (converter / tomography mappings) was modified"
        world = [[cid, cg.snapshot(pool[cid])] for cid in pool]
        return [outcomes, world, {"fail": fail, "rejected": rejected}]

    def coq_header(self):
        return cg.COQ_HEADER

    def coq_expr(self, c):
        return cg.prog_to_coq([o for o in c["prog"] if o[0] not in OBSERVERS])

    def decode(self, c, sx):
        return cg.decode_world(sx)

    def compare(self, c, a, b):
        return core.approx_equal(a[:2], b)

    def oracle(self, c, obs):
        return obs[2]["fail"]

    def nontrivial(self, c, obs):
        prog = [o for o in c["prog"] if o[0] not in OBSERVERS]
        ok_adds = [i for i, (o, r) in enumerate(zip(prog, obs[0])) if o[0] == "add" and "ok" in r]
        reused = any(any(o2[0] == "add" and o2[2] == prog[i][2] or o2[1] == prog[i][2] for o2 in prog[i + 1:]) for i in ok_adds)
        return obs[2]["rejected"] >= 1 and reused

    def stats(self, cases, recs):
        ops = Counter()
        errs = Counter()
        for r in recs:
            for o in r["case"]["prog"]:
                ops[o[0]] += 1
            if isinstance(r["impl"], list):
                for o, out in zip([o for o in r["case"]["prog"] if o[0] not in OBSERVERS], r["impl"][0]):
                    if "err" in out:
                        errs[o[0] + ":" + out["err"]] += 1
        return {"ops": dict(ops), "rejected": dict(errs)}

    def slim(self, rec):
        # keep the per-call outcomes and the verdict, drop the world snapshots (matrices of every circuit)
        io = rec["impl"]
        if isinstance(io, list) and len(io) == 3:
            rec["impl"] = [io[0], [], io[2]]
        rec["model"] = None

    def shrink(self, c):
        prog = c["prog"]
        for i in range(len(prog) - 1, -1, -1):
            d = copy.deepcopy(c)
            op = d["prog"][i]
            if op[0] in ("new", "unitary"):
                cid = op[1]
                if any(o is not op and cid in o[1:4] for o in d["prog"] if o[0] not in ("unitary",) or o is op):
                    continue
            del d["prog"][i]
            yield d

    def signature(self, c, rec):
        return None


PROP = C08()

if __name__ == "__main__":
    sys.exit(core.main(PROP))
