"""C08 — operations never modify their arguments; failed calls change nothing.

Two ties between the Coq development and the code, on every generated history:
  * VALUE level (mandatory): after every call the observable state of every live circuit is compared with its
    state before the call (only the target may change, nothing if the call raised) and, at the end, with the
    functional model (Model/World.v + the rewrite calls of Model/Rewrite.v).
  * IDENTITY level: after every call the reference structure of the real objects (which entries of the
    `_Circuit__circuit_spec` lists, recursively into Group.circuit_spec, are the same Python object, and whether
    list objects / herald dict objects / the internal-modes list are shared between or within circuits) is compared
    with the address structure of the reference-level heap model (Model/Heap.v, evaluated by Exec/RunC08.v on the
    same program).  The implementation sharing MORE than the model (a cell the model holds to be separate is one
    object in the implementation) is a disagreement; sharing LESS (an extra copy) is not.  Private attributes are
    read defensively: if one is missing the identity comparison is skipped for that run and counted in the stats.
"""
from __future__ import annotations

import copy
import gc
import json
import math
import os
import random
import sys
import zlib
from collections import Counter

import numpy as np

import core
import circgen as cg
from core import cn

import lightworks as lw
from lightworks import emulator

OBSERVERS = ("simulate", "sample", "analyze", "reck", "display", "convert", "tomo", "ptomo")
XBAD = "xbad"          # a call with an argument of the wrong type / an unknown option: python side only (see run_xbad)
PY_ONLY = OBSERVERS + (XBAD,)
REWRITE_OPS = ("compress", "nonadj", "copyf")

CIRC_ATTRS = ("_Circuit__circuit_spec", "_Circuit__in_heralds", "_Circuit__out_heralds",
              "_Circuit__external_in_heralds", "_Circuit__external_out_heralds", "_Circuit__internal_modes")
_MISSING = object()


class IdentityUnavailable(Exception):
    pass


def _input_occupation(c, rng_seed):
    n = c.input_modes
    s = [0] * n
    if n:
        s[rng_seed % n] = 1
        if n > 1 and rng_seed % 3 == 0:
            s[(rng_seed // 3) % n] += 1
        if rng_seed % 7 == 0:
            s[(rng_seed // 7) % n] += 2          # three and more photons, several on one mode
        if rng_seed % 11 == 0:
            s = [0] * n                          # the vacuum
    return s


def _tomo_experiment(circuits, inputs=None):
    """the user callback of the tomography classes: exact output distribution of every circuit it is handed"""
    res = []
    for i, cc in enumerate(circuits):
        st = lw.State([1, 0] * (cc.input_modes // 2)) if inputs is None else inputs[i]
        try:
            pd = emulator.Sampler(cc, st).probability_distribution
            r = {k: int(round(1000 * v)) for k, v in pd.items()
                 if all(k[2 * j] + k[2 * j + 1] == 1 for j in range(len(k) // 2))}      # dual-rail outcomes only
        except Exception:  # noqa: BLE001
            r = {}
        if not r or sum(r.values()) == 0:
            r = {lw.State([1, 0] * (cc.input_modes // 2)): 10}
        res.append(r)
    return res


def _shared_gate_snapshot():
    from lightworks.qubit.converter import qiskit_convert as qc
    from lightworks.tomography import mappings
    out = {}
    for name, table in (("SINGLE", getattr(qc, "SINGLE_QUBIT_GATES_MAP", {})), ("TWO", getattr(qc, "TWO_QUBIT_GATES_MAP", {})),
                        ("THREE", getattr(qc, "THREE_QUBIT_GATES_MAP", {})),
                        ("MEAS", getattr(mappings, "MEASUREMENT_MAPPING", {})), ("INPUT", getattr(mappings, "INPUT_MAPPING", {}))):
        for k, v in table.items():
            objs = v if isinstance(v, (list, tuple)) else [v]
            for idx, g in enumerate(objs):
                if isinstance(g, lw.Circuit):
                    out[f"{name}:{k}:{idx}"] = (g.n_modes, g.input_modes, str(g.heralds), np.round(g.U_full, 12).tobytes())
                elif isinstance(g, lw.State):        # the shared input states of process tomography
                    out[f"{name}:{k}:{idx}"] = ("state", str(g), len(g), tuple(g.s))
    return out


OBS_STATE_SPACE = 20000     # emulator observers are skipped on circuits whose Fock space is larger than this


def _fock_space(c, st):
    """number of Fock states the emulator would enumerate: photons (input + heralds) over modes (+ loss modes)"""
    nph = sum(st.s) + sum(c.heralds["input"].values())
    try:
        dim = int(c.U_full.shape[0])
    except Exception:  # noqa: BLE001
        dim = c.n_modes
    return math.comb(dim + nph - 1, nph) if dim else 1


def run_observer(pool, op):
    k, cid, seed = op[0], op[1], op[2]
    c = pool[cid]
    occ = _input_occupation(c, seed)
    st = lw.State(list(occ))
    st2 = lw.State(list(occ))        # a second State object, handed in as a requested output
    if k in ("simulate", "sample", "analyze") and _fock_space(c, st) > OBS_STATE_SPACE:
        # a 27-mode, 7-photon circuit costs minutes and gigabytes; the observer's result is not part of the property
        return
    if k == "simulate":
        sim = emulator.Simulator(c)
        sim.simulate(st)
        if seed % 2:
            sim.simulate([st, st2], [st2, st])
    elif k == "sample":
        s = emulator.Sampler(c, st, backend=emulator.Backend("slos" if seed % 2 else "permanent"))
        s.probability_distribution  # noqa: B018
        if sum(occ) or seed % 2:
            s.sample_N_outputs(5, seed=seed)
        if seed % 5 == 0:
            s.sample_N_inputs(5, seed=seed)
    elif k == "analyze":
        an = emulator.Analyzer(c)
        an.analyze(st)
        if seed % 2:
            an.analyze([st, st2])
    elif k == "reck":
        if seed % 3 == 0:
            lw.interferometers.Reck(lw.interferometers.ErrorModel()).map(c, seed=seed)
        else:
            lw.interferometers.Reck().map(c)
    elif k == "display":
        import matplotlib.pyplot as plt
        lw.Display(c, display_type="svg" if seed % 2 else "mpl", display_loss=bool(seed % 3))
        plt.close("all")
    elif k == "convert":
        from qiskit import QuantumCircuit
        from lightworks.qubit import qiskit_converter
        q = QuantumCircuit(3)
        if seed % 4 < 2:
            q.h(0); q.cx(0, 2); q.s(1); q.cz(1, 2)
            if seed % 2:
                q.ccz(0, 1, 2)
        else:
            # every shared single-qubit instance after heralded two-qubit gates (whose ancillas then lie inside the register)
            import random as _r
            r = _r.Random(seed)
            q.cx(r.randrange(2), 2) if r.random() < 0.5 else q.cz(0, 1 + r.randrange(2))
            for _ in range(r.randint(3, 8)):
                g = r.choice(["h", "x", "y", "z", "s", "sdg", "t", "tdg", "sx", "cx", "cz", "swap"])
                if g in ("cx", "cz", "swap"):
                    a, b = r.sample(range(3), 2)
                    getattr(q, g)(a, b)
                else:
                    getattr(q, g)(r.randrange(3))
        try:
            qiskit_converter(q, allow_post_selection=bool(seed % 2))
        except Exception as e:  # noqa: BLE001  (a program the converter refuses is fine; a missing entry point is not)
            if isinstance(e, (AttributeError, ImportError, NameError)):
                raise AssertionError(f"INTERNAL: the converter observer could not run: {e}") from e
            raise
    elif k == "tomo":
        from lightworks.tomography import StateTomography
        if c.input_modes in (2, 4) and sum(c.heralds["input"].values()) <= 3 and c.n_modes <= 9:
            StateTomography(c.input_modes // 2, c, _tomo_experiment).process()
    elif k == "ptomo":
        from lightworks import tomography as tm
        if c.input_modes == 2 and sum(c.heralds["input"].values()) <= 3 and c.n_modes <= 8:
            cls = (tm.LIProcessTomography, tm.GateFidelity, tm.LIProcessTomography)[seed % 3]
            t = cls(1, c, _tomo_experiment)
            t.process(np.eye(2)) if cls is tm.GateFidelity else t.process()
    # the reference is the occupation the case prescribes, not a value read back from the object before the call
    if list(st.s) != occ or list(st2.s) != occ or len(st) != len(occ) or st != lw.State(list(occ)):
        raise AssertionError(f"input State modified: {st} / {st2}, was {occ}")


XBAD_KINDS = ("conv", "mode_type", "herald_type", "add_type", "swaps_type", "barrier_type", "loss_type", "refl_type")


def run_xbad(pool, op):
    """One construction call that the code refuses because an argument has the wrong type or names an unknown option
    (the table-driven malformed stream only has numbers out of range).  Must raise; what it raises is not compared."""
    import random as _r
    _, cid, kind, seed = op
    r = _r.Random(seed)
    c = pool[cid]
    nv = c.n_modes - len(c._internal_modes)
    m = r.randrange(max(nv, 1))
    m2 = (m + 1) % nv if nv >= 2 else m
    junk = r.choice([0.5, None, "0", lw.Parameter(0), [0], -0.5])
    if kind == "conv":
        c.bs(m, m2, reflectivity=0.5, convention=r.choice(["h", "rx", "", None, "HH", 0]))
    elif kind == "mode_type":
        f = r.randrange(5)
        if f == 0:
            c.ps(junk, 0.1)
        elif f == 1:
            c.loss(junk, 0.1)
        elif f == 2:
            c.bs(junk, m2)
        elif f == 3:
            c.bs(m, r.choice([0.5, "0", lw.Parameter(0), [0], m + 0.5]))           # first mode fine, second not
        else:
            c.ps(True, 0.1) if not c._internal_modes else c.ps(m + 0.5, 0.1)
    elif kind == "herald_type":
        f = r.randrange(4)
        if f == 0:
            c.herald(r.choice([1.0, True, "1", None, [1]]), m)
        elif f == 1:
            c.herald(1, junk)
        elif f == 2:
            c.herald(1, m, r.choice([0.5, "0", lw.Parameter(0), [0]]))             # input mode fine (and free or not), output not
        else:
            c.herald(0, m + 0.5, m)
    elif kind == "add_type":
        sub = lw.Circuit(1)
        sub.ps(0, 0.3)
        f = r.randrange(3)
        if f == 0:
            c.add(r.choice([None, 3, np.eye(2), "circuit", [sub]]))
        elif f == 1:
            c.add(sub, junk if junk is not None else 0.5)
        else:
            c.add(lw.Unitary, 0)                                                     # the class, not an instance
    elif kind == "swaps_type":
        f = r.randrange(3)
        if f == 0:
            c.mode_swaps([(m, m2), (m2, m)])
        elif f == 1:
            c.mode_swaps({m: m2 + 0.5, m2 + 0.5: m})
        else:
            c.mode_swaps({m: "0", "0": m})
    elif kind == "barrier_type":
        f = r.randrange(3)
        if f == 0:
            c.barrier([m, r.choice([0.5, None, "0", [0]])])                          # first entry fine
        elif f == 1:
            c.barrier(m)
        else:
            c.barrier([m, m2, lw.Parameter(0)])
    elif kind == "loss_type":
        bad = r.choice([lw.Parameter(1.5), lw.Parameter(-0.5), lw.Parameter("a"), lw.Parameter(None), lw.Parameter(True),
                        True, False, "0.5", 1 + 1j])
        f = r.randrange(3)
        if f == 0:
            c.loss(m, bad)
        elif f == 1:
            c.ps(m, 0.2, bad)
        else:
            c.bs(m, m2, 0.5, bad)
    elif kind == "refl_type":
        c.bs(m, m2, r.choice(["0.5", None, [0.5], 2 + 0j, lw.Parameter]))
    else:
        raise RuntimeError(kind)


def run_xbad_text(op):
    return f"wrongly typed argument, kind {op[2]} #{op[3]}"


def param_scenario(seed):
    """A circuit whose components (top level, inside a plain group, inside a heralded group) hold Parameter objects is
    used as an ARGUMENT: copied, frozen, added to a parent with an ancilla, summed, observed; its copies are rewritten
    and edited.  After every call the circuit must be as before - observable state and the very Parameter objects it
    lists - and afterwards it must still follow its Parameters (reference: the same recipe built from plain numbers)."""
    rng = random.Random(seed)
    n = rng.randint(2, 4)
    vals, live = [], []

    def slot(lo, hi, p=0.75):
        vals.append(rng.uniform(lo, hi))
        live.append(rng.random() < p)
        return len(vals) - 1

    def comps(w, k):
        out = []
        for _ in range(k):
            kind = rng.choice(["bs", "bs", "ps", "ps", "loss", "swaps"] if w >= 2 else ["ps", "loss"])
            if kind == "bs":
                a, b = rng.sample(range(w), 2)
                out.append(("bs", a, b, slot(0.05, 0.95), rng.choice(["Rx", "H"]), slot(0.05, 0.6) if rng.random() < 0.3 else None))
            elif kind == "ps":
                out.append(("ps", rng.randrange(w), slot(-3, 3), slot(0.05, 0.6) if rng.random() < 0.3 else None))
            elif kind == "loss":
                out.append(("loss", rng.randrange(w), slot(0.05, 0.6)))
            else:
                a, b = rng.sample(range(w), 2)
                out.append(("swaps", a, b))
        return out

    recipe = [("comps", comps(n, rng.randint(1, 3)))]
    for _ in range(rng.randint(1, 2)):
        w = rng.randint(1, n)
        her = rng.random() < 0.4
        recipe.append(("sub", w + (1 if her else 0), comps(w + (1 if her else 0), rng.randint(1, 3)),
                       (rng.choice([0, 1]), rng.randrange(w + 1)) if her else None, rng.randint(0, n - w), rng.random() < 0.5))
        if rng.random() < 0.5:
            recipe.append(("comps", comps(n, rng.randint(1, 2))))

    def put(c, items, arg):
        for it in items:
            if it[0] == "bs":
                c.bs(it[1], it[2], reflectivity=arg(it[3]), convention=it[4], **({} if it[5] is None else {"loss": arg(it[5])}))
            elif it[0] == "ps":
                c.ps(it[1], arg(it[2]), **({} if it[3] is None else {"loss": arg(it[3])}))
            elif it[0] == "loss":
                c.loss(it[1], arg(it[2]))
            else:
                c.mode_swaps({it[1]: it[2], it[2]: it[1]})

    def build(arg):
        c = lw.Circuit(n)
        for r in recipe:
            if r[0] == "comps":
                put(c, r[1], arg)
            else:
                _, w, items, her, m, g = r
                sub = lw.Circuit(w)
                put(sub, items, arg)
                if her:
                    sub.herald(her[0], her[1])
                c.add(sub, m, group=g)
        return c

    pars = [lw.Parameter(v) if l else None for v, l in zip(vals, live)]
    s = build(lambda i: pars[i] if pars[i] is not None else vals[i])

    def plain(values):
        return np.array(build(lambda i: values[i]).U_full)

    S0 = cg.snapshot(s)
    P0 = [id(p) for p in s.get_all_params()]
    if "ok" not in S0[5] or not np.allclose(np.array(S0[5]["ok"][1])[..., 0] + 1j * np.array(S0[5]["ok"][1])[..., 1], plain(vals), atol=1e-9):
        return "as built: U_full differs from the same recipe built from plain numbers"

    def unchanged(after):
        d = core.approx_equal(S0, cg.snapshot(s), tol=1e-12)
        if d:
            return f"{after} changed the circuit it was given: {d}"
        if [id(p) for p in s.get_all_params()] != P0:
            return f"{after}: the circuit it was given no longer lists the same Parameter objects"
        return None

    nvis = n
    k_open = s.input_modes
    st = [0] * k_open
    if k_open:
        st[rng.randrange(k_open)] = 1
    cp = fz = None
    FZ = None
    steps = ["copy", "freeze", "add", "plus", "observe", "rewrite", "edit", "freeze", "add"]
    rng.shuffle(steps)
    for step in steps[:rng.randint(4, len(steps))]:
        if step == "copy":
            cp = s.copy()
        elif step == "freeze":
            fz = s.copy(freeze_parameters=True)
            FZ = cg.snapshot(fz)
        elif step == "add":
            par = lw.Circuit(nvis + 1)
            anc = lw.Circuit(2)
            anc.bs(0, 1)
            anc.herald(0, rng.randrange(2))
            par.add(anc, rng.randint(0, nvis))
            par.add(s, rng.randint(0, nvis + 1 - k_open) if k_open else 0, group=rng.random() < 0.5)
            par.ps(0, 0.3)
        elif step == "plus":
            if not s.heralds["input"]:
                other = lw.Circuit(n)
                other.ps(0, pars[0] if pars[0] is not None else 0.2)
                z = s + other if rng.random() < 0.5 else other + s
                z.compress_mode_swaps()
                z.bs(0, 1, reflectivity=0.3)
        elif step == "observe":
            kind = rng.randrange(4)
            try:
                if kind == 0:
                    emulator.Simulator(s).simulate(lw.State(st))
                elif kind == 1:
                    emulator.Sampler(s, lw.State(st)).probability_distribution  # noqa: B018
                elif kind == 2:
                    import matplotlib.pyplot as plt
                    lw.Display(s, display_type=rng.choice(["svg", "mpl"]), show_parameter_values=rng.random() < 0.5, display_loss=True)
                    plt.close("all")
                else:
                    lw.interferometers.Reck().map(s)
            except Exception:  # noqa: BLE001  (the observer's own outcome is not this property)
                pass
        elif step == "rewrite" and cp is not None:
            getattr(cp, rng.choice(["compress_mode_swaps", "remove_non_adjacent_bs", "unpack_groups"]))()
        elif step == "edit":
            t = rng.choice([x for x in (cp, fz) if x is not None] or [s.copy()])
            t.ps(0, 0.4)
            t.bs(0, 1, reflectivity=0.2, loss=0.1)
            if t is fz:
                FZ = cg.snapshot(fz)
        msg = unchanged(step)
        if msg:
            return msg
    new = [rng.uniform(-3, 3) if any(it[0] == "ps" and it[2] == i for r in recipe for it in (r[1] if r[0] == "comps" else r[2])) else rng.uniform(0.05, 0.6)
           for i in range(len(vals))]
    for i, p_ in enumerate(pars):
        if p_ is not None:
            p_.set(new[i])
        else:
            new[i] = vals[i]
    if not np.allclose(np.array(s.U_full), plain(new), atol=1e-9):
        return ("after it was copied / frozen / added / summed / observed, the circuit no longer follows its Parameters "
                "(U_full differs from the same recipe built from the new values)")
    if fz is not None:
        d = core.approx_equal(FZ, cg.snapshot(fz), tol=1e-12)
        if d:
            return f"the frozen copy moved when the Parameters of the original were set: {d}"
    return None


def apply8(pool, op):
    k = op[0]
    if k == "compress":
        pool[op[1]].compress_mode_swaps()
    elif k == "nonadj":
        pool[op[1]].remove_non_adjacent_bs()
    elif k == "copyf":
        pool[op[1]] = pool[op[2]].copy(freeze_parameters=True)
    else:
        cg.apply_op(pool, op)


# ---------------------------------------------------------------- identity structure of the real objects
def identity_structure(pool):
    """Per live circuit: [cid, list, in, out, xin, xout, internal, entries]; an entry is [component] or, for a
    group, [component, its list, heralds-in dict, heralds-out dict, [members]].  Objects are named by small
    integers in order of first appearance (no addresses in the output)."""
    names = {}
    keep = []

    def nm(obj):
        keep.append(obj)
        return names.setdefault(id(obj), len(names) + 1)

    out = []
    for cid, c in pool.items():
        vals = [getattr(c, a, _MISSING) for a in CIRC_ATTRS]
        if any(v is _MISSING for v in vals):
            raise IdentityUnavailable("attribute " + CIRC_ATTRS[[v is _MISSING for v in vals].index(True)] + " not found")
        if not isinstance(vals[0], list) or not all(isinstance(d, dict) for d in vals[1:5]) or not isinstance(vals[5], list):
            raise IdentityUnavailable("a private attribute has an unexpected type")
        entries = []
        for s in vals[0]:
            if type(s).__name__ == "Group":
                sub = getattr(s, "circuit_spec", _MISSING)
                her = getattr(s, "heralds", _MISSING)
                if sub is _MISSING or not isinstance(sub, list) or not isinstance(her, dict) \
                        or not isinstance(her.get("input"), dict) or not isinstance(her.get("output"), dict):
                    raise IdentityUnavailable("Group without circuit_spec list / heralds dicts")
                entries.append([nm(s), nm(sub), nm(her["input"]), nm(her["output"]), [nm(x) for x in sub]])
            else:
                entries.append([nm(s)])
        out.append([cid] + [nm(v) for v in vals] + [entries])
    return out


def _slots(step):
    sl = {}
    for row in step:
        cid = row[0]
        for name, v in zip(("list", "in", "out", "xin", "xout", "internal"), row[1:7]):
            sl[(cid, name)] = v
        for k, e in enumerate(row[7]):
            sl[(cid, "entry", k)] = e[0]
            if len(e) > 1:
                sl[(cid, "entry", k, "list")] = e[1]
                sl[(cid, "entry", k, "heralds-in")] = e[2]
                sl[(cid, "entry", k, "heralds-out")] = e[3]
                for j, m in enumerate(e[4]):
                    sl[(cid, "entry", k, "member", j)] = m
    return sl


def _group_dict_slot(slot):
    return len(slot) == 4 and slot[1] == "entry" and slot[3] in ("heralds-in", "heralds-out")


def identity_diff(real_step, model_step, note=None):
    """None | "shape" | message.  Alarm only when the implementation identifies two slots the model keeps apart.
    One kind of extra sharing cannot matter and is only counted (note['group_dict_sharing']): two Group.heralds
    dictionaries being one object.  copy.deepcopy (frozen copy) keeps the aliasing that existed between the herald
    dicts of different groups, the model's frozen copy gives every group its own dicts; neither the code nor the
    model ever stores into a group's herald dict (they are rebuilt, never edited), and a circuit's own herald
    dicts are different slots, for which the alarm stays."""
    rs, ms = _slots(real_step), _slots(model_step)
    if set(rs) != set(ms):
        return "shape"
    by_obj = {}
    for slot, obj in rs.items():
        by_obj.setdefault(obj, []).append(slot)
    for obj, slots in by_obj.items():
        if len(slots) < 2:
            continue
        addrs = {ms[s] for s in slots}
        if len(addrs) > 1:
            if all(_group_dict_slot(s) for s in slots):
                if note is not None:
                    note["group_dict_sharing"] = note.get("group_dict_sharing", 0) + 1
                continue
            first = slots[0]
            other = next(s for s in slots if ms[s] != ms[first])
            return (f"the implementation holds ONE object at {list(first)} and {list(other)}; "
                    f"the reference-level model holds two separate cells there")
    return None


# ---------------------------------------------------------------- generation
def _extend_with_sharing(rng, prog, meta, tier):
    """copy / + / rewrite calls on circuits of the program, followed by edits on both sides of the shared
    structure and by additions of the results into a parent that already has ancillas."""
    vis = dict(meta.get("vis", {}))
    opn = dict(meta.get("opn", {}))
    if not vis:
        return
    ids = sorted(vis)
    nid = max(max(ids), max((o[1] for o in prog if o[0] in ("copy", "plus")), default=0)) + 1
    parent = meta.get("last")
    for o in prog:
        if o[0] == "copy" and o[1] not in vis:
            vis[o[1]], opn[o[1]] = vis[o[2]], opn[o[2]]

    def prim(cid):
        prog.append(cg.gen_primitive(rng, cid, vis[cid], bad=0.05))

    def followup(a, b):
        """edits after a and b came to share structure"""
        for _ in range(rng.randint(1, 3)):
            r = rng.random()
            t = a if rng.random() < 0.5 else b
            if r < 0.35:
                prim(t)
            elif r < 0.5:
                m = rng.randrange(max(vis[t], 1))
                prog.append(["herald", t, rng.choice([0, 1]), m, None if rng.random() < 0.6 else rng.randrange(max(vis[t], 1))])
            elif r < 0.65:
                prog.append(["compress", t])
            elif r < 0.8:
                prog.append(["nonadj", t])
            elif r < 0.9:
                prog.append(["unpack", t])
            elif parent is not None and parent not in (a, b) and vis[parent] >= opn[t] > 0:
                prog.append(["add", parent, t, rng.randint(0, vis[parent] - opn[t]), rng.random() < 0.4])
                prim(parent)
            else:
                prim(t)

    for _ in range(rng.randint(1, 3)):
        r = rng.random()
        if r < 0.3:
            # fresh plain circuit, its copy, their sum
            n = rng.randint(2, 4)
            x, y, z = nid, nid + 1, nid + 2
            nid += 3
            prog.append(["new", x, n])
            for c in (x, y, z):
                vis[c], opn[c] = n, n
            for _ in range(rng.randint(1, 3)):
                prog.append(cg.gen_primitive(rng, x, n, kinds=["bs", "swaps", "swaps", "ps", "barrier"]))
            prog.append(["copy", y, x])
            if rng.random() < 0.5:
                prim(y)
            prog.append(["plus", z, x, y if rng.random() < 0.7 else x])
            followup(z, x)
            if rng.random() < 0.5:
                followup(z, y)
        elif r < 0.6:
            src = rng.choice(ids)
            d = nid
            nid += 1
            prog.append(["copyf" if rng.random() < 0.15 else "copy", d, src])
            vis[d], opn[d] = vis[src], opn[src]
            followup(d, src)
        elif r < 0.8:
            a = rng.choice(ids)
            b = rng.choice([i for i in ids if vis[i] == vis[a]])
            z = nid
            nid += 1
            prog.append(["plus", z, a, b])      # rejected when either side has heralds: the operands must stay as they were
            vis[z], opn[z] = vis[a], vis[a]
            followup(z, a)
        else:
            t = rng.choice(ids)
            prog.append([rng.choice(["compress", "nonadj"]), t])
            prim(t)


class C08:
    ID = "C08"
    RULE = ("random API histories over a pool of <= 12 circuits (tree programs with 20% malformed calls: out-of-range modes, invalid "
            "values, duplicate heralds, incomplete swaps, oversize additions; the same circuit reused as an argument several times, "
            "parents with ancillas inside spans; copy / + / compress_mode_swaps / remove_non_adjacent_bs / unpack_groups followed by "
            "edits on both sides of the shared structure) interleaved with observer calls (Simulator, Sampler, Analyzer, Reck().map, "
            "Display, qiskit converter, state and process tomography / gate fidelity on two-rail circuits with an ancilla between the "
            "rails; inputs with 0, 1, 2 and >= 3 photons, the State objects handed in compared with the occupation of the case; "
            "calls refused for an argument's TYPE or an unknown option (float / None / str / Parameter / list modes, bool and float "
            "photon numbers, non-circuits to add, non-dict swaps, invalid and falsy loss values and loss Parameters, unknown "
            "conventions); Parameter-carrying circuits used as arguments (python side); the emulator calls are skipped on circuits whose Fock space exceeds 20000 states); after EVERY call the observable state of EVERY live object is compared with "
            "its state before the call (only the call's target may change; nothing if it raised), the final states with the functional "
            "model, and after every call the identity structure of the real objects with the addresses of the reference-level heap "
            "model (alarm when the implementation shares more). Non-trivial = a history with >= 1 rejected call and >= 1 accepted add "
            "whose argument is used again afterwards; distinct = distinct history JSON")
    CHUNK = 40
    TRUSTED = ["Python floats vs exact rationals compared at 1e-9",
               "identity comparison: Python `is` on the objects behind the name-mangled private attributes of Circuit and on "
               "Group.circuit_spec / Group.heralds; skipped (and counted) when such an attribute does not exist"]
    ASSUMPTIONS = ["shared Parameter objects are excepted by design (not generated here; see C10)",
                   "Barrier.modes, ModeSwaps.swaps and UnitaryMatrix.unitary are values inside a component cell in the heap model: "
                   "the code only ever rebinds these fields, an in-place edit of such a sub-object would be seen by the value "
                   "snapshots only",
                   "frozen copy: copy.deepcopy keeps aliasing between the heralds dicts of different Group components (they "
                   "are one object when the same heralded circuit was added twice without grouping into the copied circuit); "
                   "the heap model gives each frozen group its own dicts. Group herald dicts are never edited in place by the "
                   "code or the model, so this extra sharing is counted in the stats, not alarmed"]

    def generate(self, rng, tier):
        n = 150 if tier == "quick" else 2400
        n = int(os.environ.get("VERIF_C08_N", "0") or 0) or n      # measurement runs only
        cases = []
        for i in range(n):
            meta = {}
            prog = cg.gen_tree_program(rng, tier, bad=0.2 if i % 2 else 0.05, meta=meta)
            # reuse arguments: repeat some adds, edit subs after adding
            adds = [o for o in prog if o[0] == "add"]
            if adds and rng.random() < 0.7:
                a = rng.choice(adds)
                prog.append(list(a))
                prog.append(cg.gen_primitive(rng, a[2], 2))
                prog.append(list(a))
            if rng.random() < 0.75:
                _extend_with_sharing(rng, prog, meta, tier)
            k = rng.randint(0, 4)
            for _ in range(k):
                pos = rng.randint(1, len(prog))
                defined = [o[1] for o in prog[:pos] if o[0] in ("new", "unitary", "copy", "plus", "copyf")]
                if defined:
                    kind = rng.choice(OBSERVERS[:7] if i % 5 == 0 else OBSERVERS[:5])
                    prog.insert(pos, [kind, rng.choice(defined), rng.randint(0, 99)])
            # calls refused because of an argument's TYPE or an unknown option (python side only), at random places; drawn
            # from a PRNG seeded by the program text, so the shared stream - and every history above - is as before
            r2 = random.Random(zlib.crc32(json.dumps(prog).encode()))
            for _ in range(r2.choice([0, 1, 1, 2, 3])):
                pos = r2.randint(1, len(prog))
                defined = [o[1] for o in prog[:pos] if o[0] in ("new", "unitary", "copy", "plus", "copyf")]
                if defined:
                    prog.insert(pos, [XBAD, r2.choice(defined), r2.choice(XBAD_KINDS), r2.randrange(10**6)])
            cases.append(dict(kind="history", prog=prog))
        # tomography / converter histories: a two-rail circuit, possibly with a heralded sub-circuit whose ancilla sits
        # BETWEEN the rails (the measurement and preparation gates shared by all runs are then added across an ancilla),
        # observed by state and process tomography and by the converter, then reused as an argument
        for i in range(n // 12):
            r2 = random.Random(rng.randrange(10**9))
            prog = [["new", 0, 2]]
            for _ in range(r2.randint(0, 2)):
                prog.append(cg.gen_primitive(r2, 0, 2, loss_p=0.0, kinds=["bs", "ps", "swaps"]))
            if r2.random() < 0.7:
                prog += [["new", 1, 2], ["bs", 1, 0, 1, r2.randrange(len(cg.BSV)), None, r2.choice(["Rx", "H"])],
                         ["herald", 1, r2.choice([0, 0, 1]), r2.randrange(2), None if r2.random() < 0.5 else r2.randrange(2)],
                         ["add", 0, 1, 1, r2.random() < 0.3]]
            for _ in range(r2.randint(1, 3)):
                prog.append([r2.choice(["tomo", "ptomo", "ptomo", "convert"]), 0, r2.randint(0, 99)])
                if r2.random() < 0.4:
                    prog.append(cg.gen_primitive(r2, 0, 2, loss_p=0.0, kinds=["bs", "ps"]))
            prog += [["new", 2, 3], ["add", 2, 0, r2.randrange(2), r2.random() < 0.5], ["tomo", 0, r2.randint(0, 99)]]
            cases.append(dict(kind="history", prog=prog))
        # circuits that hold Parameter objects, used as arguments (python side only)
        for i in range(n // 3 if tier == "quick" else n // 8):
            cases.append(dict(kind="param", prog=[], seed=rng.randrange(10**9)))
        return cases

    def impl(self, c):
        if c["kind"] == "param":
            try:
                fail = param_scenario(c["seed"])
            except Exception as e:  # noqa: BLE001
                fail = f"a valid call raised {type(e).__name__}: {e}"
            return [[], [], {"fail": fail, "rejected": 0, "ident": None, "identity_comparison": "n/a: Parameter scenario"}]
        prog = c["prog"]
        pool = {}
        outcomes = []
        fail = None
        rejected = 0
        ident = []
        ident_skipped = None
        shared0 = _shared_gate_snapshot()
        before = None
        observed = Counter()
        xbad_accepted = None
        for op in prog:
            before = {cid: cg.snapshot(x) for cid, x in pool.items()}
            if op[0] == XBAD:
                if op[1] not in pool:
                    continue
                try:
                    run_xbad(pool, op)
                    xbad_accepted = op       # not this property's business; the history cannot be followed any further
                    break
                except Exception:  # noqa: BLE001
                    out = {"err": "refused"}
                    rejected += 1
                target = None
            elif op[0] in OBSERVERS:
                try:
                    run_observer(pool, op)
                    out = {"ok": []}
                    observed[op[0] + ":ran"] += 1
                except AssertionError as e:
                    out = {"ok": []}
                    fail = fail or f"op {op}: {e}"
                except Exception as e:  # noqa: BLE001  (observer outcome is not part of this property)
                    out = {"obs_err": type(e).__name__}
                    observed[op[0] + ":raised"] += 1
                target = None
            else:
                try:
                    apply8(pool, op)
                    out = {"ok": []}
                except NotImplementedError:
                    out = {"err": "OtherError"}
                except Exception as e:  # noqa: BLE001
                    out = {"err": cg.err_name_for(op, e)}
                outcomes.append(out)
                target = op[1] if "ok" in out else None
                if "err" in out:
                    rejected += 1
                if ident_skipped is None:
                    try:
                        ident.append(identity_structure(pool))
                    except IdentityUnavailable as e:
                        ident_skipped = str(e)
                    except Exception as e:  # noqa: BLE001  (never let the optional comparison break the mandatory one)
                        ident_skipped = f"{type(e).__name__}: {e}"
            if fail is None:
                for cid, snap in before.items():
                    if cid == target:
                        continue
                    after = cg.snapshot(pool[cid])
                    d = core.approx_equal(snap, after, tol=1e-12)
                    if d:
                        what = ("a call that raised" if "err" in out else ("an observer call" if op[0] in OBSERVERS else "a call")) \
                            + (" [" + run_xbad_text(op) + "]" if op[0] == XBAD else "")
                        fail = f"op {op} ({what}) changed circuit {cid} which is not its target: {d}"
                        break
        if fail is None and _shared_gate_snapshot() != shared0:
            fail = "a module-level shared gate instance (converter / tomography mappings) was modified"
        world = [[cid, cg.snapshot(pool[cid])] for cid in pool]
        pool.clear()
        del pool, before
        self._n_impl = getattr(self, "_n_impl", 0) + 1
        if self._n_impl % 25 == 0:          # emulator / qiskit / matplotlib objects hold reference cycles
            try:
                import matplotlib.pyplot as plt
                plt.close("all")
            except Exception:  # noqa: BLE001
                pass
            gc.collect()
        return [outcomes, world, {"fail": fail, "rejected": rejected, "ident": None if ident_skipped else ident,
                                  "identity_comparison": ("skipped: " + ident_skipped) if ident_skipped else "pending",
                                  "observed": dict(observed), "xbad_accepted": xbad_accepted}]

    def coq_header(self):
        return ("From Coq Require Import ZArith List.\nFrom Bignums Require Import BigQ.\n"
                "From LW Require Import Base.Sx Base.Num Model.Circuit Model.World Model.Rewrite Exec.QNum Exec.RunCircuit "
                "Exec.RunC08.\n")

    def coq_expr(self, c):
        if c["kind"] == "param":
            return "SL nil"
        items = []
        for o in c["prog"]:
            if o[0] in PY_ONLY:
                continue
            if o[0] == "compress":
                items.append(f"(OCompress {cn(o[1])})")
            elif o[0] == "nonadj":
                items.append(f"(ONonAdj {cn(o[1])})")
            elif o[0] == "copyf":
                items.append(f"(OCopyFrozen {cn(o[1])} {cn(o[2])})")
            else:
                items.append("(Base (" + cg.op_to_coq(o) + "))")
        return "run_c08 " + core.clist(items)

    def decode(self, c, sx):
        if c["kind"] == "param":
            return None
        outcomes, world = cg.decode_world(sx[:2])
        return [outcomes, world, sx[2], sx[3]]

    def compare(self, c, a, b):
        if c["kind"] == "param":
            return None
        if a[2].get("xbad_accepted"):
            # a call with an argument of the wrong type was ACCEPTED: outside this property (and outside the model);
            # the history was abandoned at that point and is only counted
            a[2]["identity_comparison"] = "skipped: a wrongly typed argument was accepted"
            return None
        d = core.approx_equal(a[:2], b[:2])
        if d:
            return d
        if b[3] != 1:
            return ("the reference-level heap model (Model/Heap.v) and the functional model (Model/World.v) disagree on this "
                    "history: outcomes or circuit structure after some call differ")
        info = a[2]
        if info.get("ident") is None:
            return None
        real, model = info["ident"], b[2]
        if len(real) != len(model):
            info["identity_comparison"] = "skipped: number of recorded steps differs"
            return None
        steps = shape = 0
        ops = [o for o in c["prog"] if o[0] not in PY_ONLY]
        for k, (rs, ms) in enumerate(zip(real, model)):
            r = identity_diff(rs, ms, info)
            if r == "shape":
                shape += 1
            elif r:
                info["identity_comparison"] = "disagreement"
                return f"identity structure after call #{k} {ops[k]}: {r}"
            else:
                steps += 1
        info["identity_comparison"] = f"compared: {steps} steps, {shape} steps with different spec shape skipped"
        info["ident_steps"] = steps
        info["ident_shape_skipped"] = shape
        return None

    def oracle(self, c, obs):
        return obs[2]["fail"]

    def nontrivial(self, c, obs):
        if c["kind"] == "param":
            return True
        prog = [o for o in c["prog"] if o[0] not in PY_ONLY]
        ok_adds = [i for i, (o, r) in enumerate(zip(prog, obs[0])) if o[0] == "add" and "ok" in r]
        reused = any(any(o2[0] == "add" and o2[2] == prog[i][2] or o2[1] == prog[i][2] for o2 in prog[i + 1:]) for i in ok_adds)
        return obs[2]["rejected"] >= 1 and reused

    def stats(self, cases, recs):
        ops = Counter()
        errs = Counter()
        ident = Counter()
        steps = 0
        for r in recs:
            for o in r["case"]["prog"]:
                ops[o[0]] += 1
            if isinstance(r["impl"], list):
                for o, out in zip([o for o in r["case"]["prog"] if o[0] not in PY_ONLY], r["impl"][0]):
                    if "err" in out:
                        errs[o[0] + ":" + out["err"]] += 1
                info = r["impl"][2]
                ic = str(info.get("identity_comparison", "pending"))
                ident["skipped" if ic.startswith("skipped") else ic.split(":")[0]] += 1
                steps += info.get("ident_steps", 0)
                ident["steps_with_different_shape"] += info.get("ident_shape_skipped", 0)
                ident["group_herald_dicts_shared_more_than_model(harmless)"] += info.get("group_dict_sharing", 0)
        observed, xacc = Counter(), 0
        for r in recs:
            if isinstance(r["impl"], list) and len(r["impl"]) == 3:
                observed.update(r["impl"][2].get("observed") or {})
                xacc += bool(r["impl"][2].get("xbad_accepted"))
        out = {"ops": dict(ops), "rejected": dict(errs), "identity_runs": dict(ident), "identity_steps_compared": steps,
               "observer_calls": dict(observed), "histories_abandoned(wrongly_typed_argument_accepted)": xacc,
               "parameter_scenarios": sum(1 for c in cases if c["kind"] == "param")}
        if ident.get("skipped"):
            out["identity_comparison"] = "skipped"
        return out

    def slim(self, rec):
        # keep the per-call outcomes and the verdict, drop the world snapshots (matrices of every circuit)
        io = rec["impl"]
        if isinstance(io, list) and len(io) == 3:
            io[2]["ident"] = None
            rec["impl"] = [io[0], [], io[2]]
        rec["model"] = None

    def shrink(self, c):
        prog = c["prog"]
        for i in range(len(prog) - 1, -1, -1):
            d = copy.deepcopy(c)
            op = d["prog"][i]
            if op[0] in ("new", "unitary", "copy", "plus", "copyf"):
                cid = op[1]
                if any(o is not op and cid in o[1:4] for o in d["prog"] if o[0] not in ("unitary",) or o is op):
                    continue
            del d["prog"][i]
            yield d

    def signature(self, c, rec):
        return None


PROP = C08()

if __name__ == "__main__":
    sys.exit(core.main(PROP))
