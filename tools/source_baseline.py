#!/usr/bin/env python3
"""Regenerates harness/source_baseline.json: AST fingerprints (docstrings stripped) of every file a property
is anchored in, taken from /repo's working tree. Run after every fix: commit in /repo."""
import json, os, sys
ROOT = os.path.dirname(os.path.dirname(os.path.abspath(__file__)))
sys.path.insert(0, os.path.join(ROOT, "harness"))
import core  # noqa: E402
os.environ.pop("VERIF_REPO", None)
out = {}
for line in open(os.path.join(ROOT, "properties.jsonl")):
    p = json.loads(line)
    for f in p.get("anchors", {}).get("files", []):
        out[f] = core._ast_fingerprint(os.path.join("/repo", f))
json.dump(out, open(os.path.join(ROOT, "harness", "source_baseline.json"), "w"), indent=1, sort_keys=True)
print(len(out), "files")
