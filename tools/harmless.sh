#!/bin/bash
# tools/harmless.sh : run every registered quick check against each behaviour-preserving refactoring in
# seeded/harmless/r*.diff (scratch worktree + VERIF_REPO); a VIOLATION here is a FALSE ALARM of the check.
cd "$(dirname "$0")/.."
out=seeded/harmless/RESULTS.txt
: > $out
for d in seeded/harmless/r*.diff; do
  k=$(basename $d .diff)
  wt=/tmp/harmless-wt-$$
  git -C /repo worktree remove --force $wt 2>/dev/null
  git -C /repo worktree add -q --detach $wt HEAD || exit 1
  if ! git -C $wt apply $PWD/$d; then echo "$k: patch does not apply to HEAD" | tee -a $out; git -C /repo worktree remove --force $wt; continue; fi
  for id in C01 C02 C03 C04 C05 C06 C07 C08 C09 C10 C11 C12 C13 C14 C15 C16 C17 C18 C19; do echo $id; done | \
    xargs -P 6 -I{} bash -c "VERIF_REPO=$wt ./check {} --tier quick > .work/status/harmless_${k}_{}.log 2>&1; echo \"$k {} rc=\$? \$(grep -c '^VIOLATION' .work/status/harmless_${k}_{}.log) violations\"" | sort | tee -a $out
  git -C /repo worktree remove --force $wt
done
git -C /repo worktree prune
