#!/usr/bin/env python3
"""Rewrites the seeded-change table of DESIGN.md (between the SEEDED-TABLE markers) from seeded/*/meta.json,
confirm.json and seeded/RESULTS.json."""
import json, os, re
ROOT = os.path.dirname(os.path.dirname(os.path.abspath(__file__)))
res = json.load(open(os.path.join(ROOT, "seeded", "RESULTS.json")))
rows = ["| change | property | what it breaks / what it needs | confirmed | quick check | how it was reported |", "|---|---|---|---|---|---|"]
for n in sorted(d for d in os.listdir(os.path.join(ROOT, "seeded")) if os.path.exists(os.path.join(ROOT, "seeded", d, "meta.json"))):
    d = os.path.join(ROOT, "seeded", n)
    meta = json.load(open(os.path.join(d, "meta.json")))
    conf = json.load(open(os.path.join(d, "confirm.json"))) if os.path.exists(os.path.join(d, "confirm.json")) else {}
    r = res.get(n, {})
    what = " ".join(str(meta.get("breaks") or "").split())[:230]
    need = " ".join(str(meta.get("needs_to_manifest") or "").split())[:200]
    how = ""
    for pid, c in (r.get("checks") or {}).items():
        if c.get("what"):
            how = f"{pid}: " + " ".join(c["what"][0].replace("what:", "").split())[:150]
            break
    note = meta.get("strengthened") or ""
    rows.append(f"| `{n}` | {meta['property']} | {what} — needs: {need} | {'yes' if conf.get('confirmed') else 'pending'} | "
                f"{'**caught**' if r.get('caught') else ('MISSED' if r else 'not run')}{(' (' + note + ')') if note else ''} | {how.replace('|', '/')} |")
p = os.path.join(ROOT, "DESIGN.md")
s = open(p).read()
s = re.sub(r"<!-- SEEDED-TABLE-BEGIN -->.*<!-- SEEDED-TABLE-END -->", "<!-- SEEDED-TABLE-BEGIN -->\n" + "\n".join(rows).replace("\\", "\\\\") + "\n<!-- SEEDED-TABLE-END -->", s, flags=re.S)
open(p, "w").write(s)
print(len(rows) - 2, "rows")
