#!/usr/bin/env python3
"""tools/import_mut.py <ID> : copy /tmp/mut/<ID>-out/m{k}.{diff,json}, m{k}_demo.py into seeded/<ID>-m{k}/"""
import json, os, shutil, sys
ROOT = os.path.dirname(os.path.dirname(os.path.abspath(__file__)))
args = sys.argv[1:]
rnd2 = "--round2" in args
rnd3 = "--round3" in args
rnd4 = "--round4" in args
rnd5 = "--round5" in args or "--round6" in args
rnd6 = "--round6" in args
args = [a for a in args if a not in ("--round2", "--round3", "--round4", "--round5", "--round6")]
for pid in args:
    src = f"/tmp/mut6/{pid}-out" if rnd6 else f"/tmp/mut5/{pid}-out" if rnd5 else f"/tmp/mut4/{pid}-out" if rnd4 else f"/tmp/mut3/{pid}-out" if rnd3 else (f"/tmp/mut2/{pid}-out" if rnd2 else f"/tmp/mut/{pid}-out")
    for k in (1, 2, 3, 4):
        if not os.path.exists(f"{src}/m{k}.diff"):
            continue
        d = os.path.join(ROOT, "seeded", f"{pid}-m{k + (6 if rnd4 else 4 if rnd3 else (2 if rnd2 else 0))}")
        if rnd5:  # next free index of this property
            j = 1
            while os.path.exists(os.path.join(ROOT, "seeded", f"{pid}-m{j}")):
                j += 1
            d = os.path.join(ROOT, "seeded", f"{pid}-m{j}")
        os.makedirs(d, exist_ok=True)
        shutil.copy(f"{src}/m{k}.diff", f"{d}/patch.diff")
        shutil.copy(f"{src}/m{k}_demo.py", f"{d}/demo.py")
        try:
            info = json.load(open(f"{src}/m{k}.json"))
        except Exception as e:  # noqa: BLE001
            info = {"note": f"author json unreadable: {e}"}
        meta = {"property": pid, "breaks": info.get("what_breaks"), "needs_to_manifest": info.get("needs_to_manifest"),
                "why_tests_pass": info.get("why_tests_pass"), "files": info.get("files"),
                "author": "independent sub-agent given only the property text and a scratch worktree",
                "ran": ["tools/seeded.py confirm (patch applies; full test suite passes with it; demo fails with it, passes without)",
                        "tools/seeded.py run (./check against the patched tree)"]}
        json.dump(meta, open(f"{d}/meta.json", "w"), indent=1)
        print("imported", d)
