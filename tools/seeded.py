#!/usr/bin/env python3
"""Run registered checks against the seeded breaking changes in /verif/seeded/<name>/.

  tools/seeded.py confirm <name>...   in a scratch worktree of /repo: the patch applies, the full
                                      test suite still passes with it, the demonstration fails with
                                      it and passes without it  (writes seeded/<name>/confirm.json)
  tools/seeded.py run [--repo] [--tier quick] [<name>...]
                                      run ./check <property> against the patched tree and record
                                      whether a VIOLATION was reported (seeded/RESULTS.json).
                                      default: scratch worktree + VERIF_REPO (does not disturb /repo);
                                      --repo: git -C /repo apply, run, git -C /repo checkout -- .
Scratch worktrees live under /tmp/seeded-wt-<pid> and are removed afterwards.
"""
import json, os, subprocess, sys, time, shutil

ROOT = os.path.dirname(os.path.dirname(os.path.abspath(__file__)))
SEEDED = os.path.join(ROOT, "seeded")
PY = "/venv/bin/python"


def sh(cmd, cwd=None, env=None, timeout=3600):
    e = dict(os.environ)
    if env:
        e.update(env)
    p = subprocess.run(cmd, cwd=cwd, env=e, shell=isinstance(cmd, str), capture_output=True, text=True, timeout=timeout)
    return p.returncode, p.stdout + p.stderr


def names(args):
    if args:
        return args
    return sorted(d for d in os.listdir(SEEDED) if os.path.exists(os.path.join(SEEDED, d, "patch.diff")))


def worktree():
    wt = f"/tmp/seeded-wt-{os.getpid()}"
    sh(["git", "-C", "/repo", "worktree", "remove", "--force", wt])
    rc, out = sh(["git", "-C", "/repo", "worktree", "add", "--detach", wt, "HEAD"])
    assert rc == 0, out
    return wt


def drop(wt):
    sh(["git", "-C", "/repo", "worktree", "remove", "--force", wt])
    shutil.rmtree(wt, ignore_errors=True)
    sh(["git", "-C", "/repo", "worktree", "prune"])


def confirm(ns):
    for n in ns:
        d = os.path.join(SEEDED, n)
        wt = worktree()
        res = {"name": n}
        try:
            env = {"PYTHONPATH": wt, "PYTHONHASHSEED": "0", "MPLBACKEND": "Agg"}
            demo = os.path.join(d, "demo.py")
            rc, out = sh([PY, "-B", demo], cwd=wt, env=env)
            res["demo_clean_rc"] = rc
            rc, out = sh(["git", "-C", wt, "apply", os.path.join(d, "patch.diff")])
            res["apply_rc"] = rc
            rc, out = sh([PY, "-B", demo], cwd=wt, env=env)
            res["demo_patched_rc"] = rc
            res["demo_patched_tail"] = out[-400:]
            rc, out = sh([PY, "-m", "pytest", "-q", "-p", "no:cacheprovider", "--timeout=900", "-n", "16", "tests"], cwd=wt, env=env)
            res["tests_rc"] = rc
            res["tests_tail"] = out.strip().splitlines()[-1] if out.strip() else ""
            res["confirmed"] = (res["demo_clean_rc"] == 0 and res["apply_rc"] == 0 and res["demo_patched_rc"] != 0 and res["tests_rc"] == 0)
        finally:
            drop(wt)
        json.dump(res, open(os.path.join(d, "confirm.json"), "w"), indent=1)
        print(json.dumps(res))


def run(ns, via_repo, tier):
    path = os.path.join(SEEDED, "RESULTS.json")
    results = json.load(open(path)) if os.path.exists(path) else {}
    for n in ns:
        d = os.path.join(SEEDED, n)
        meta = json.load(open(os.path.join(d, "meta.json")))
        props = meta.get("checks") or [meta["property"]]
        t0 = time.time()
        if via_repo:
            rc, out = sh(["git", "-C", "/repo", "status", "--short"])
            assert out.strip() == "", "/repo is not clean"
            rc, out = sh(["git", "-C", "/repo", "apply", os.path.join(d, "patch.diff")])
            assert rc == 0, out
            env = {}
            wt = None
        else:
            wt = worktree()
            rc, out = sh(["git", "-C", wt, "apply", os.path.join(d, "patch.diff")])
            if rc != 0:
                drop(wt)
                print(n, "PATCH DOES NOT APPLY to /repo HEAD:", out.strip()[:200], flush=True)
                continue
            env = {"VERIF_REPO": wt}
        rec = {}
        try:
            for pid in props:
                rc, out = sh(["./check", pid, "--tier", tier], cwd=ROOT, env=env)
                viol = [l for l in out.splitlines() if l.startswith("VIOLATION")]
                what = [l.strip() for l in out.splitlines() if l.strip().startswith("what:")]
                rec[pid] = {"exit": rc, "violation": bool(viol), "lines": viol[:3], "what": what[:3]}
        finally:
            if via_repo:
                sh(["git", "-C", "/repo", "checkout", "--", "."])
            else:
                drop(wt)
        entry = {"property": meta["property"], "via": "repo" if via_repo else "worktree", "tier": tier,
                 "checks": rec, "caught": any(v["violation"] for v in rec.values()), "wall_s": round(time.time() - t0, 1)}
        print(n, json.dumps(entry)[:600], flush=True)
        results = json.load(open(path)) if os.path.exists(path) else {}     # merge with concurrent runners
        results[n] = entry
        json.dump(results, open(path, "w"), indent=1, sort_keys=True)


if __name__ == "__main__":
    a = sys.argv[1:]
    if not a or a[0] not in ("confirm", "run"):
        print(__doc__); sys.exit(2)
    if a[0] == "confirm":
        confirm(names(a[1:]))
    else:
        rest = a[1:]
        via_repo = "--repo" in rest
        tier = "quick"
        if "--tier" in rest:
            tier = rest[rest.index("--tier") + 1]
        rest = [x for i, x in enumerate(rest) if x not in ("--repo", "--tier") and (i == 0 or rest[i - 1] != "--tier")]
        run(names(rest), via_repo, tier)
